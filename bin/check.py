#!/usr/bin/env python3
"""check.py <property> --tier quick|thorough

Builds the simulator against /repo's current working tree, runs the seeded batch of
simulated runs for one property on all cores, minimises and replays every violation,
matches it against known_findings.json and writes evidence/<property>.json.

exit 0: property held on everything explored (known findings are listed, not failed)
exit 1: VIOLATION property=<id> replay=<path> printed for a violation that is not a known finding
exit 2: the harness itself misbehaved (build failure, nondeterministic replay, worker crash that does not reproduce)
"""
import argparse
import json
import os
import re
import shutil
import subprocess
import sys
import time

VERIF = os.path.dirname(os.path.dirname(os.path.abspath(__file__)))
SIM = os.path.join(VERIF, "sim")
BUILD = os.environ.get("PEGSIM_BUILD", os.path.join(VERIF, "build", "asan"))  # selftest builds mutants elsewhere
OUTROOT = os.environ.get("PEGSIM_OUT", VERIF)
REPLAYS = os.path.join(OUTROOT, "replays")
EVIDENCE = os.path.join(OUTROOT, "evidence")
KNOWN = os.path.join(VERIF, "known_findings.json")

# property -> (make targets, [(binary, extra worker args)])
PLAN = {
    "C02": (["core"], [("pegsim", [])]),
    "C03": (["core"], [("pegsim", [])]),
    "C05": (["core", "io"], [("pegsim", []), ("pegsim-io", [])]),
    "C07": (["core", "io"], [("pegsim", []), ("pegsim-io", [])]),
    "C08": (["core", "cov", "io"], [("pegsim", []), ("pegsim-cov", []), ("pegsim-io", [])]),
    "C12": (["tree"], [("pegsim-tree", [])]),
    "C13": (["core", "io"], [("pegsim", []), ("pegsim-io", [])]),
    "C18": (["core"], [("pegsim", [])]),
}
THOROUGH_EXTRA = {  # chunk size 1 lives in its own binary
    "C02": ("c1", ("pegsim-c1", ["--only-set", "7"])),
    "C03": ("c1", ("pegsim-c1", ["--only-set", "7"])),
    "C05": ("c1", ("pegsim-c1", ["--only-set", "7"])),
    "C07": ("c1", ("pegsim-c1", ["--only-set", "7"])),
}
RUNS = {"quick": 2_000_000, "thorough": 60_000_000}
STALL_S = int(os.environ.get("PEGSIM_STALL_S", "60"))
RUNS_BY_PROP = {  # checks with slower job kinds (I/O jobs, coverage maps, tree comparison)
    "C07": {"quick": 800_000, "thorough": 24_000_000},
    "C08": {"quick": 800_000, "thorough": 24_000_000},
    "C12": {"quick": 1_500_000, "thorough": 40_000_000},
}

RULE_TEXT = (
    "a case = (runtime-wired grammar table over real PEGTL rule templates, top-level shape, input bytes, "
    "fault plan, reader schedule, buffer maximum/chunk) derived from mix(VERIF_SEED, index); swarm-style "
    "per-case op/atom subsets; inputs derived from the grammar and mutated, or from a token dictionary. "
    "A run is non-trivial if it has >= 8 rule invocations and at least one of: an injected fault fired, a "
    "rewind-required failure after consuming, a consuming look-ahead, a short read, a natural raise, a state "
    "scope, a byte/depth limit scope, an action veto. Distinct = distinct 64-bit FNV-1a fingerprints of the "
    "complete recorded event history (address independent), merged over all workers."
)

COMPONENTS = {
    "real": [
        "tao::pegtl::parse / match() / normal<> / every rule template in the op and atom tables",
        "memory_input, buffer_input (require/discard/size/empty/end), input_with_depth, rewind and unwind guards",
        "try_catch_*, must family, raise, state<>, change_state/states/action/control, enable/disable(_action), limit_bytes, limit_depth, check_bytes, discard rules/actions",
        "parse_tree::parse + make_control (C12), state_control + coverage_state (C08)",
        "must_if<>::control, parse_nested (C05), add_state (C13), control_action, remove_first_state, remove_last_states, rotate_states_right/left, reverse_states, tracer<> (C08 fixed-grammar jobs)",
        "string_input, argv_input, read_input (+ read_file_stdio, glibc stdio), mmap_input/file_input (+ mmap_file_posix, kernel mmap on a real temp file), cstream_input (+ cstream_reader, glibc fread over fopencookie), istream_input (+ istream_reader, libstdc++ istream::read) (C07 I/O jobs)",
    ],
    "stub": [
        "Reader (sim_reader: delivers the planned number of bytes, can throw)",
        "I/O jobs: fopencookie read/seek callbacks, a streambuf (xsgetn), --wrap'ed open/fopen/fstat/mmap/munmap/fread that fail per plan or pass through to libc",
        "Control (sim_control/ctl2: record, then delegate to normal<Rule>)",
        "Action / state classes (record, veto by a deterministic predicate, throw per plan)",
        "thin input subclasses that record/poison and forward to the real base class",
        "tao::pegtl::coverage()'s up-front visit<>() is replaced by per-rule coverage_insert<> (compile time)",
    ],
}


def sh(cmd, **kw):
    return subprocess.run(cmd, stdout=subprocess.PIPE, stderr=subprocess.STDOUT, text=True, **kw)


def build(targets):
    t0 = time.time()
    r = sh(["make", "-C", SIM, "-j16", "B=" + BUILD] + targets)
    if r.returncode != 0:
        tail = "\n".join(r.stdout.splitlines()[-40:])
        print("BUILD FAILED (the tree under /repo does not compile with the simulator):\n" + tail)
        return None
    return time.time() - t0


def load_known():
    try:
        with open(KNOWN) as f:
            return json.load(f).get("findings", [])
    except FileNotFoundError:
        return []


def known_match(known, prop, oracle, key):
    for k in known:
        if k.get("status") != "known":
            continue
        if k.get("property") == prop and k.get("oracle") == oracle and k.get("key") == key:
            return k
    return None


def main():
    ap = argparse.ArgumentParser()
    ap.add_argument("prop")
    ap.add_argument("--tier", default=os.environ.get("VERIF_TIER", "quick"))
    ap.add_argument("--runs", type=int, default=0)
    ap.add_argument("--workers", type=int, default=min(16, os.cpu_count() or 16))
    ap.add_argument("--no-build", action="store_true")
    args = ap.parse_args()
    prop = args.prop
    tier = "thorough" if args.tier == "thorough" else "quick"
    seed = int(os.environ.get("VERIF_SEED", "1") or "1")
    if prop not in PLAN:
        print("unknown property", prop)
        return 2
    t_start = time.time()
    print(f"SEED {seed} property={prop} tier={tier}")

    targets, bins = PLAN[prop]
    targets = list(targets)
    bins = list(bins)
    if tier == "thorough" and prop in THOROUGH_EXTRA:
        targets.append(THOROUGH_EXTRA[prop][0])
        bins.append(THOROUGH_EXTRA[prop][1])
    build_s = 0.0
    if not args.no_build:
        build_s = build(targets)
        if build_s is None:
            return 2

    total = args.runs or RUNS_BY_PROP.get(prop, RUNS)[tier]
    workdir = os.path.join(os.path.dirname(BUILD), "run", f"{prop}-{tier}-{os.getpid()}")
    shutil.rmtree(workdir, ignore_errors=True)
    os.makedirs(workdir)
    os.makedirs(REPLAYS, exist_ok=True)
    os.makedirs(EVIDENCE, exist_ok=True)

    # ---- run the batch: every binary walks the same index range and runs the jobs it contains.
    # A worker that dies (sanitizer report, crash, assert) is restarted behind the index it died on.
    from concurrent.futures import ThreadPoolExecutor
    t_run = time.time()
    nw = args.workers

    def chain(bi, binary, extra, w):
        exe = os.path.join(BUILD, binary)
        begin = 0
        stalls = 0
        ext_kills = 0
        outs, fatals, harness = [], [], []
        for attempt in range(40):
            out = os.path.join(workdir, f"b{bi}w{w}r{attempt}")
            cmd = [exe, "run", "--check", prop, "--seed", str(seed), "--begin", str(begin), "--end", str(total),
                   "--stride", str(nw), "--offset", str(w), "--tier", tier, "--out", out] + extra
            with open(out + ".err", "w") as errf:
                # watchdog: a worker whose current index does not change for STALL_S seconds is stuck inside one
                # run (a loop in the library that makes no progress); it is killed and the index reported like a crash
                p = subprocess.Popen(cmd, stdout=errf, stderr=errf)
                we_killed = False
                last_idx, last_t = None, time.time()
                while True:
                    try:
                        rc = p.wait(timeout=5)
                        break
                    except subprocess.TimeoutExpired:
                        pass
                    cur = None
                    try:
                        with open(out + ".status", "rb") as f:
                            raw = f.read(24)
                            cur = raw[:8] + raw[16:24]  # current index + heartbeat (advances while the worker skips other binaries' jobs)
                    except OSError:
                        pass
                    if cur != last_idx:
                        last_idx, last_t = cur, time.time()
                    elif time.time() - last_t > STALL_S:
                        p.kill()
                        rc = p.wait()
                        we_killed = True
                        errf.write(f"\ncheck.py: killed after {STALL_S} s without progress\n")
                        stalls += 1
                        break
            outs.append(out)
            finished = False
            try:
                with open(out + ".res") as f:
                    finished = any(line.startswith("STATS ") for line in f)
            except OSError:
                pass
            if finished:
                break
            idx, marker = None, 0
            try:
                with open(out + ".status", "rb") as f:
                    raw = f.read(16)
                idx = int.from_bytes(raw[:8], "little")
                marker = int.from_bytes(raw[8:16], "little")
                if idx == 0xFFFFFFFFFFFFFFFF:
                    idx = None
            except OSError:
                pass
            if idx is None:
                harness.append(f"worker {os.path.basename(out)} exited with status {rc} without a current index; see {out}.err")
                break
            if rc == -9 and not we_killed and ext_kills < 3:
                # killed from outside (e.g. the kernel's out-of-memory killer): not a verdict about the run; go on from the same index
                ext_kills += 1
                begin = idx
                continue
            fatals.append((idx, "asan" if marker == 2 else "crash", rc, exe, extra, out))  # marker 3 = SIGABRT (failed assert)
            begin = idx + 1
            if stalls >= 2:
                print(f"note: worker b{bi}w{w} got stuck twice; its share of the batch is truncated at index {begin}")
                break
        else:
            print(f"note: worker b{bi}w{w} died more than 40 times; its share of the batch is truncated at index {begin}")
        return outs, fatals, harness

    all_outs, fatals, harness_msgs = [], [], []
    with ThreadPoolExecutor(max_workers=nw * len(bins)) as ex:
        futs = [ex.submit(chain, bi, binary, extra, w) for bi, (binary, extra) in enumerate(bins) for w in range(nw)]
        for fu in futs:
            o, fa, ha = fu.result()
            all_outs += o
            fatals += fa
            harness_msgs += ha
    stats = []
    vlines = []
    exe_of = {}
    foreign_notes = []
    for bi, (binary, extra) in enumerate(bins):
        exe_of[bi] = os.path.join(BUILD, binary)
    for out in all_outs:
        bi = int(re.search(r"b(\d+)w", os.path.basename(out)).group(1))
        try:
            with open(out + ".res") as f:
                for line in f:
                    if line.startswith("V "):
                        m = re.match(r"V (\d+) (\S+) (\S+) \| (.*)", line.rstrip("\n"))
                        if m:
                            vlines.append((int(m.group(1)), m.group(2), m.group(3), m.group(4), exe_of[bi]))
                    elif line.startswith("FOREIGN "):
                        foreign_notes.append(line.rstrip("\n")[8:])
                    elif line.startswith("STATS ") or line.startswith("PARTIAL "):
                        stats.append(json.loads(line[line.index("{"):]))
        except OSError:
            pass
    run_s = time.time() - t_run

    # ---- aggregate
    agg = {"runs": 0, "discarded": 0, "nontrivial": 0, "violating_runs": 0, "with_faults": 0, "fault_free": 0,
           "events": 0, "reader_calls_total": 0, "bytes_delivered": 0}
    feats = {}
    foreign = {}
    fctx = set()
    samples = []
    for s in stats:
        for k in agg:
            agg[k] += s.get(k, 0)
        for k, v in s.get("features", {}).items():
            feats[k] = feats.get(k, 0) + v
        for k, v in s.get("foreign", {}).items():
            foreign[k] = foreign.get(k, 0) + v
        fctx.update(s.get("fault_contexts", []))
        for x in s.get("samples", []):
            if len(samples) < 6:
                samples.append(x)
    fp_files = [out + ".fp" for out in all_outs if os.path.exists(out + ".fp")]
    distinct = 0
    if fp_files:
        r = sh([os.path.join(BUILD, bins[0][0]), "merge-fp"] + fp_files)
        try:
            distinct = int(r.stdout.strip().splitlines()[-1])
        except (ValueError, IndexError):
            distinct = 0

    known = load_known()
    exit_code = 0
    reported = []
    known_hits = {}

    for msg in harness_msgs:
        print("HARNESS: " + msg)
        exit_code = max(exit_code, 2)

    # ---- runs that ended the worker process: AddressSanitizer report (window violation, C03) or crash
    fatal_groups = {}
    foreign_fatal = 0
    for idx, kind, rc, exe, extra, out in sorted(fatals):
        oracle = "C03.poison" if kind == "asan" else f"{prop}.crash"
        if kind == "asan" and prop != "C03":
            foreign_fatal += 1  # seen, restarted behind it; reported by the C03 check
            continue
        fatal_groups.setdefault(oracle, (idx, rc, exe, extra, out))
    if foreign_fatal:
        foreign["C03.poison"] = foreign.get("C03.poison", 0) + foreign_fatal
    for oracle, (idx, rc, exe, extra, out) in sorted(fatal_groups.items()):
        key = "asan" if oracle.endswith(".poison") else "crash"
        k = known_match(known, prop, oracle, key)
        if k:
            known_hits[(oracle, key)] = k
            continue
        path = os.path.join(REPLAYS, f"{prop}-{seed}-{idx}.replay")
        r = sh([exe, "shrink", "--check", prop, "--seed", str(seed), "--index", str(idx), "--tier", tier, "--oracle", oracle, "--out", path], timeout=1800)
        if r.returncode != 1 or not os.path.exists(path):
            print(f"HARNESS: worker died at index {idx} (status {rc}) but the index alone does not; see {out}.err: {r.stdout[-300:]}")
            exit_code = max(exit_code, 2)
            continue
        rp = sh([exe, "replay", path], timeout=300)
        if rp.returncode != 1 or "REPRODUCED" not in rp.stdout:
            print(f"HARNESS: replay file {path} does not reproduce {oracle} in a fresh process: {rp.stdout[-400:]}")
            exit_code = max(exit_code, 2)
            continue
        what = "AddressSanitizer reported an access outside the input window" if key == "asan" else f"the run crashed the process (status {rc})"
        print(f"VIOLATION property={prop} replay={path}")
        print(f"  {oracle}: {what}; first seen at index {idx}")
        reported.append({"oracle": oracle, "key": key, "replay": path, "index": idx})
        exit_code = max(exit_code, 1)

    # ---- violations: one representative per (oracle, key), minimised, replayed in a fresh process
    groups = {}
    for idx, oracle, key, detail, exe in sorted(vlines):
        groups.setdefault((oracle, key), (idx, detail, exe))
    shrunk = 0
    for (oracle, key), (idx, detail, exe) in sorted(groups.items(), key=lambda kv: kv[1][0]):
        k = known_match(known, prop, oracle, key)
        if k:
            known_hits[(oracle, key)] = k
            continue
        if shrunk >= 4:
            print(f"  (further violation group not minimised: {oracle} key={key} index={idx}: {detail})")
            exit_code = max(exit_code, 1)
            continue
        shrunk += 1
        path = os.path.join(REPLAYS, f"{prop}-{seed}-{idx}.replay")
        shrink_cmd = [exe, "shrink", "--check", prop, "--seed", str(seed), "--index", str(idx), "--tier", tier, "--oracle", oracle, "--out", path]
        r = sh(shrink_cmd, timeout=900)
        if r.returncode not in (0, 1, 2):
            # a neighbouring candidate (or the run itself, later on) ends the process: minimise in forked children
            r = sh(shrink_cmd + ["--fork", "1"], timeout=1800)
        if r.returncode == 2 or "NONDETERMINISTIC" in r.stdout:
            print(f"HARNESS: index {idx} is not deterministic in-process ({oracle})")
            exit_code = max(exit_code, 2)
            continue
        if r.returncode != 1 or not os.path.exists(path):
            print(f"HARNESS: violation at index {idx} ({oracle}) did not reproduce when re-run: {r.stdout[-400:]}")
            exit_code = max(exit_code, 2)
            continue
        rp = sh([exe, "replay", path], timeout=300)
        if rp.returncode != 1 or "REPRODUCED" not in rp.stdout:
            print(f"HARNESS: replay file {path} does not reproduce {oracle} in a fresh process: {rp.stdout[-400:]}")
            exit_code = max(exit_code, 2)
            continue
        # the minimised case may have drifted to another key of the same oracle: re-check the known list
        mk = re.search(r"REPRODUCED oracle=(\S+) key=(\S*)", rp.stdout)
        k2 = known_match(known, prop, oracle, mk.group(2)) if mk else None
        if k2:
            known_hits[(oracle, mk.group(2))] = k2
            continue
        print(f"VIOLATION property={prop} replay={path}")
        print(f"  {oracle} key={key} first seen at index {idx}: {detail}")
        reported.append({"oracle": oracle, "key": key, "replay": path, "index": idx, "detail": detail})
        exit_code = max(exit_code, 1)

    for (oracle, key), k in sorted(known_hits.items()):
        print(f"KNOWN-FINDING: property={prop} {oracle} key={key}: {k.get('what', '')}")

    wall = time.time() - t_start
    judged = agg["runs"] - agg["discarded"]
    fault_kinds = {
        "throw_from_action_or_hook_or_state (sim_fault / std::runtime_error / parse_error / int)": feats.get("faults_fired", 0),
        "reader_short_reads": feats.get("short_reads", 0),
        "overflow_error_from_small_buffer": feats.get("overflow_errors", 0),
    }
    evidence = {
        "property_id": prop,
        "tier": tier,
        "seed": seed,
        "level": "exploration",
        "coverage": {
            "evaluations": judged,
            "distinct_nontrivial": distinct,
            "rule": RULE_TEXT,
            "samples": samples if samples else ["(no non-trivial sample recorded)"],
            "discarded_runs_fuel_exhausted": agg["discarded"],
            "runs_with_fault_plan": agg["with_faults"],
            "runs_fault_free": agg["fault_free"],
            "simulated_steps_recorded_events": agg["events"],
            "simulated_time": "none: PEGTL reads no clock; steps (recorded events, reader calls, bytes delivered) are reported instead",
            "reader_calls": agg["reader_calls_total"],
            "bytes_delivered": agg["bytes_delivered"],
            "runs_per_hour": int(agg["runs"] / run_s * 3600) if run_s > 0 else 0,
            "seeds": 1,
            "faults_fired_by_kind": fault_kinds,
            "reach_probes": feats,
            "distinct_fault_contexts (site x innermost try_catch class x depth bucket x in-state-scope)": len(fctx),
            "violations_of_other_properties_seen_not_reported_here": foreign,
            "components": COMPONENTS,
            "workers": nw,
            "build_s": round(build_s, 1),
            "run_s": round(run_s, 1),
            "known_findings_hit": [f"{o} key={k}" for (o, k) in sorted(known_hits)],
            "reported": reported,
        },
        "assumptions": [
            "the recording control/action/input subclasses only log and delegate (checked by comparing plain and instrumented runs in selftest)",
            "sampling, not enumeration: a clean batch is evidence, not proof",
        ],
        "wall_s": round(wall, 1),
        "violations": len(reported),
    }
    with open(os.path.join(EVIDENCE, f"{prop}.json"), "w") as f:
        json.dump(evidence, f, indent=1)
    print(f"{prop} {tier}: {judged} runs judged ({agg['discarded']} discarded), {distinct} distinct non-trivial histories, "
          f"{agg['violating_runs']} violating runs in {len(groups)} group(s), {len(known_hits)} known finding(s), "
          f"build {build_s:.0f}s run {run_s:.0f}s")
    for n in sorted(set(foreign_notes))[:6]:
        print(f"  note: an oracle of another property fired in this property's runs (not a verdict of this check): index {n[:300]}")
    if exit_code == 0:
        shutil.rmtree(workdir, ignore_errors=True)
    return exit_code


if __name__ == "__main__":
    sys.exit(main())
