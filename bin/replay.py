#!/usr/bin/env python3
"""replay.py <file>: replay a pegsim replay file with whichever simulator binary contains the sets it needs.
exit 1 = violation reproduced, 0 = not reproduced, 2 = something else."""
import os, subprocess, sys
VERIF = os.path.dirname(os.path.dirname(os.path.abspath(__file__)))
BUILD = os.environ.get("PEGSIM_BUILD", os.path.join(VERIF, "build", "asan"))
def main():
    if len(sys.argv) < 2:
        print(__doc__); return 2
    subprocess.run(["make", "-C", os.path.join(VERIF, "sim"), "-j16", "B=" + BUILD, "thorough"], stdout=subprocess.DEVNULL, stderr=subprocess.DEVNULL)
    for b in ("pegsim", "pegsim-io", "pegsim-tree", "pegsim-cov", "pegsim-c1"):
        exe = os.path.join(BUILD, b)
        if not os.path.exists(exe):
            continue
        r = subprocess.run([exe, "replay"] + sys.argv[1:])
        if r.returncode != 4:
            return r.returncode
    print("no binary can run this job"); return 2
sys.exit(main())
