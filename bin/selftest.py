#!/usr/bin/env python3
"""selftest.py mutants [ids...] | determinism | seeded

mutants: sensitivity catalogue. Each entry is a source change to a scratch copy of
/repo/include (outside /repo and /verif) that still compiles; the simulator is built against
the copy and the named checks must report a violation within the quick budget.
Scratch copies and their build output are removed afterwards.

determinism: many indices per check are run twice in separate processes with different
worker counts; per-index fingerprints must be identical.

seeded: applies every kept change under /verif/seeded/<id>/patch.diff to a scratch copy and
runs the checks named in its meta.json.
"""
import json
import os
import shutil
import subprocess
import sys
import time

VERIF = os.path.dirname(os.path.dirname(os.path.abspath(__file__)))
SCRATCH = os.environ.get("PEGSIM_SCRATCH", "/tmp/pegsim-selftest")

I = "include/tao/pegtl/"

# (id, file, old, new, [checks that must fail], note)
MUTANTS = [
    ("m01-require-single-read", I + "buffer_input.hpp",
     "            if( r == 0 ) {\n               break;\n            }\n            m_end += r;\n         }",
     "            m_end += r;\n            break;\n         }", ["C07"], "single reader call (the repaired F1)"),
    ("m02-discard-memmove-short", I + "buffer_input.hpp",
     "std::memmove( m_buffer.get(), m_current.data, s );", "std::memmove( m_buffer.get(), m_current.data, s > 0 ? s - 1 : 0 );", ["C07"], ""),
    ("m03-discard-end-stale", I + "buffer_input.hpp",
     "            m_end = m_buffer.get() + s;\n", "", ["C07", "C03"], "m_end not updated after moving data"),
    ("m04-overflow-without-chunk", I + "buffer_input.hpp",
     "if( m_current.data + amount > m_buffer.get() + m_maximum ) {", "if( m_current.data + amount > m_buffer.get() + m_maximum - Chunk ) {", ["C07"], "overflow_error inside the documented window guarantee"),
    ("m05-request-beyond-buffer", I + "buffer_input.hpp",
     "( std::min )( buffer_free_after_end(), ( std::max )( amount - buffer_occupied(), Chunk ) )", "( std::max )( amount - buffer_occupied(), Chunk )", ["C03"], "reader asked to write past the allocation"),
    ("m06-buffer-rewind-noop", I + "buffer_input.hpp",
     "      void rewind_restore( const inputerator_t& data ) noexcept\n      {\n         m_current = data;\n      }", "      void rewind_restore( const inputerator_t& /*unused*/ ) noexcept\n      {\n      }", ["C07", "C02"], ""),
    ("m07-buffer-bump-in-line", I + "buffer_input.hpp",
     "internal::bump( m_current, in_count, Eol::ch );", "internal::bump_in_this_line( m_current, in_count );", ["C07"], "positions"),
    ("m08-string-size1", I + "internal/string.hpp",
     "if( in.size( sizeof...( Cs ) ) >= sizeof...( Cs ) ) {", "if( in.size( 1 ) >= 1 ) {", ["C03", "C07"], ""),
    ("m09-eol-size1", I + "internal/lf_crlf_eol.hpp",
     "bool_and_size p = { false, in.size( 2 ) };", "bool_and_size p = { false, in.size( 1 ) };", ["C07"], "CR|LF split across reads"),
    ("m10-utf8-size2", I + "internal/peek_utf8.hpp",
     "            if( in.size( 3 ) >= 3 ) {", "            if( in.size( 2 ) >= 2 ) {", ["C03"], ""),
    ("m14-peek-char-no-empty", I + "internal/peek_char.hpp",
     "         if( in.empty() ) {\n            return { 0, 0 };\n         }\n", "         (void)in.empty();\n", ["C03"], ""),
    ("m15-bytes-size", I + "internal/bytes.hpp",
     "if( in.size( Cnt ) >= Cnt ) {", "if( in.size( Cnt ) > 0 ) {", ["C03"], ""),
    ("m16-until-no-empty", I + "internal/until.hpp",
     "            if( in.empty() ) {\n               return false;\n            }\n            in.bump();", "            (void)in.empty();\n            in.bump();", ["C03"], ""),
    ("m17-rep-one-le", I + "contrib/rep_one_min_max.hpp",
     "            while( ( i < size ) && ( in.peek_char( i ) == C ) ) {\n               ++i;\n            }\n            if( ( Min <= i ) && ( i <= Max ) ) {", "            while( ( i <= size ) && ( in.peek_char( i ) == C ) ) {\n               ++i;\n            }\n            if( ( Min <= i ) && ( i <= Max ) ) {", ["C03"], ""),
    ("m18-raw-close-no-size", I + "contrib/raw_string.hpp",
     "            if( in.size( marker_size ) < marker_size ) {\n               return false;\n            }", "            (void)in.size( marker_size );", ["C03"], ""),
    ("m19-limit-bytes-no-min", I + "contrib/limit_bytes.hpp",
     "m_in.current() + std::min( m_in.size(), Maximum )", "m_in.current() + Maximum", ["C18", "C03"], ""),
    ("m19b-limit-bytes-begin", I + "contrib/limit_bytes.hpp",
     "m_in.current() + std::min( m_in.size(), Maximum )", "m_in.begin() + std::min( m_in.size(), Maximum )", ["C18"], "the repaired F2"),
    ("m20-seq-optional-guard", I + "internal/seq.hpp",
     "            auto m = in.template auto_rewind< M >();\n            using m_t = decltype( m );\n            return m( ( Control< Rules >", "            auto m = in.template auto_rewind< rewind_mode::optional >();\n            using m_t = decltype( m );\n            return m( ( Control< Rules >", ["C02"], ""),
    ("m21a-rep-no-guard", I + "internal/rep.hpp",
     "         auto m = in.template auto_rewind< M >();", "         auto m = in.template auto_rewind< rewind_mode::optional >();", ["C02"], ""),
    ("m21b-if-then-else-no-guard", I + "internal/if_then_else.hpp",
     "         auto m = in.template auto_rewind< M >();", "         auto m = in.template auto_rewind< rewind_mode::optional >();", ["C02"], ""),
    ("m21c-strict-no-guard", I + "internal/strict.hpp",
     "         auto m = in.template auto_rewind< M >();", "         auto m = in.template auto_rewind< rewind_mode::optional >();", ["C02"], ""),
    ("m22-at-no-guard", I + "internal/at.hpp",
     "         const auto m = in.template auto_rewind< rewind_mode::required >();", "         const auto m = in.template auto_rewind< rewind_mode::optional >();", ["C02"], ""),
    ("m22b-not-at-no-guard", I + "internal/not_at.hpp",
     "         const auto m = in.template auto_rewind< rewind_mode::required >();", "         const auto m = in.template auto_rewind< rewind_mode::optional >();", ["C02"], ""),
    ("m23-no-guard-bool-apply0", I + "match.hpp",
     "constexpr bool use_guard = has_apply || has_apply0_bool;", "constexpr bool use_guard = has_apply;", ["C02"], "veto by bool apply0 leaves input consumed"),
    ("m24-tc-rf-optional-guard", I + "internal/try_catch_return_false.hpp",
     "         auto m = in.template auto_rewind< M >();\n         using m_t = decltype( m );\n\n         try {\n            return m( Control< Rule >::template match< A, m_t::next_rewind_mode, Action, Control >( in, st... ) );\n         }\n         catch( const Exception& ) {",
     "         auto m = in.template auto_rewind< rewind_mode::optional >();\n         using m_t = decltype( m );\n\n         try {\n            return m( Control< Rule >::template match< A, m_t::next_rewind_mode, Action, Control >( in, st... ) );\n         }\n         catch( const Exception& ) {", ["C05", "C02"], ""),
    ("m25-tc-rf-catch-all", I + "internal/try_catch_return_false.hpp",
     "         catch( const Exception& ) {\n            return false;", "         catch( ... ) {\n            return false;", ["C05"], "typed variant swallows everything"),
    ("m26-raise-nested-position", I + "internal/try_catch_raise_nested.hpp",
     "         catch( const Exception& ) {\n            Control< Rule >::raise_nested( in.position( m.inputerator() ), st... );", "         catch( const Exception& ) {\n            Control< Rule >::raise_nested( in.position(), st... );", ["C05"], ""),
    ("m27-raise-nested-plain", I + "internal/try_catch_raise_nested.hpp",
     "         catch( const Exception& ) {\n            Control< Rule >::raise_nested( in.position( m.inputerator() ), st... );", "         catch( const Exception& ) {\n            Control< Rule >::raise( in, st... );", ["C05"], ""),
    ("m29-position-size", I + "parse_error_base.hpp",
     "m_position_size( pos.size() )", "m_position_size( pos.size() + 1 )", ["C05"], "message()/position_string() split"),
    ("m31-unwind-not-reset", I + "match.hpp",
     "            const auto result = match_no_control< Rule, A, M, Action, Control >( in, st... );\n            ug.unwind.reset();", "            const auto result = match_no_control< Rule, A, M, Action, Control >( in, st... );\n            if( result ) {\n               ug.unwind.reset();\n            }", ["C08"], "unwind after a normal (false) return"),
    ("m32-success-before-action", I + "match.hpp",
     "         auto result = internal::match_control_unwind< Rule, A, ( use_guard ? rewind_mode::optional : M ), Action, Control >( in, st... );\n         if( result ) {",
     "         auto result = internal::match_control_unwind< Rule, A, ( use_guard ? rewind_mode::optional : M ), Action, Control >( in, st... );\n         if( result && ( has_apply_void || has_apply0_void ) ) {\n            Control< Rule >::success( static_cast< const ParseInput& >( in ), st... );\n         }\n         if( result ) {", ["C08"], "success hook runs twice / before the action"),
    ("m33-success-despite-veto", I + "match.hpp",
     "         if( result ) {\n            Control< Rule >::success( static_cast< const ParseInput& >( in ), st... );\n         }\n         else {\n            Control< Rule >::failure( static_cast< const ParseInput& >( in ), st... );\n         }",
     "         if( result || has_apply0_bool ) {\n            Control< Rule >::success( static_cast< const ParseInput& >( in ), st... );\n         }\n         else {\n            Control< Rule >::failure( static_cast< const ParseInput& >( in ), st... );\n         }", ["C08"], ""),
    ("m33b-action-unwind-missing", I + "match.hpp",
     "            if constexpr( ( has_apply || has_apply0 ) && internal::has_unwind< Control< Rule >, void, const ParseInput&, States... > ) {", "            if constexpr( has_apply0 && internal::has_unwind< Control< Rule >, void, const ParseInput&, States... > ) {", ["C08", "C12"], "the repaired F3 for apply()"),
    ("m34-has-unwind-never", I + "internal/has_unwind.hpp",
     "   inline constexpr bool has_unwind< C, decltype( C::unwind( std::declval< S >()... ) ), S... > = true;", "   inline constexpr bool has_unwind< C, decltype( C::unwind( std::declval< S >()... ) ), S... > = false;", ["C08", "C12"], ""),
    ("m36-coverage-unwind-no-pop", I + "contrib/coverage.hpp",
     "         void unwind( const ParseInput& /*unused*/, States&&... /*unused*/ )\n         {\n            stack.pop_back();", "         void unwind( const ParseInput& /*unused*/, States&&... /*unused*/ )\n         {", ["C08"], ""),
    ("m37-tree-unwind-no-pop", I + "contrib/parse_tree.hpp",
     "               state.back()->template unwind< Rule >( in, st... );\n            }\n            state.pop_back();", "               state.back()->template unwind< Rule >( in, st... );\n            }", ["C12"], "selected rule left by exception keeps its node"),
    ("m38-tree-failure-no-pop", I + "contrib/parse_tree.hpp",
     "         static void failure( const ParseInput& /*unused*/, state< Node >& state, States&&... /*unused*/ )\n         {\n            state.pop_back();\n         }",
     "         static void failure( const ParseInput& /*unused*/, state< Node >& state, States&&... /*unused*/ )\n         {\n            auto n = std::move( state.back() );\n            state.pop_back();\n            for( auto& c : n->children ) {\n               state.back()->children.emplace_back( std::move( c ) );\n            }\n         }", ["C12"], "children of a failed unselected rule survive"),
    ("m39-tree-leaf-forced", I + "contrib/parse_tree.hpp",
     "inline constexpr bool is_leaf< 0, type_list< Rules... >, Selector > = ( sizeof...( Rules ) == 0 );", "inline constexpr bool is_leaf< 0, type_list< Rules... >, Selector > = true;", ["C12"], "subtrees deeper than 8 treated as leaves"),
    ("m40a-fold-one-ge", I + "contrib/parse_tree.hpp",
     "         if( n->children.size() == 1 ) {\n            n = std::move( n->children.front() );", "         if( n->children.size() >= 1 ) {\n            n = std::move( n->children.front() );", ["C12"], ""),
    ("m40b-discard-empty-inverted", I + "contrib/parse_tree.hpp",
     "         if( n->children.empty() ) {\n            n.reset();", "         if( !n->children.empty() ) {\n            n.reset();", ["C12"], ""),
    ("m41-tree-children-reversed", I + "contrib/parse_tree.hpp",
     "            for( auto& c : n->children ) {\n               state.back()->children.emplace_back( std::move( c ) );\n            }\n         }\n\n         template< typename ParseInput, typename... States >\n         static void failure",
     "            for( auto it = n->children.rbegin(); it != n->children.rend(); ++it ) {\n               state.back()->children.emplace_back( std::move( *it ) );\n            }\n         }\n\n         template< typename ParseInput, typename... States >\n         static void failure", ["C12"], ""),
    ("m42-state-success-on-failure", I + "internal/state.hpp",
     "            if( Control< Rule >::template match< A, M, Action, Control >( in, s ) ) {\n               s.success( static_cast< const ParseInput& >( in ), st... );\n               return true;\n            }\n            return false;\n         }\n         else if constexpr( std::is_default_constructible_v< NewState > ) {",
     "            const bool r = Control< Rule >::template match< A, M, Action, Control >( in, s );\n            s.success( static_cast< const ParseInput& >( in ), st... );\n            return r;\n         }\n         else if constexpr( std::is_default_constructible_v< NewState > ) {", ["C13"], ""),
    ("m43-state-passes-outer", I + "internal/state.hpp",
     "            NewState s( static_cast< const ParseInput& >( in ), st... );\n            if( Control< Rule >::template match< A, M, Action, Control >( in, s ) ) {", "            NewState s( static_cast< const ParseInput& >( in ), st... );\n            if( Control< Rule >::template match< A, M, Action, Control >( in, st... ) ) {", ["C13"], ""),
    ("m44-change-state-success-nothing", I + "change_state.hpp",
     "            NewState s( static_cast< const ParseInput& >( in ), st... );\n            if( TAO_PEGTL_NAMESPACE::match< Rule, A, M, Action, Control >( in, s ) ) {\n               if constexpr( A == apply_mode::action ) {", "            NewState s( static_cast< const ParseInput& >( in ), st... );\n            if( TAO_PEGTL_NAMESPACE::match< Rule, A, M, Action, Control >( in, s ) ) {\n               if constexpr( true ) {", ["C13"], ""),
    ("m45-change-action-old", I + "change_action.hpp",
     "return Control< Rule >::template match< A, M, NewAction, Control >( in, st... );", "return TAO_PEGTL_NAMESPACE::match< Rule, A, M, Action, Control >( in, st... );", ["C13"], ""),
    ("m46a-enable-forwards", I + "internal/enable.hpp",
     "match< apply_mode::action, M, Action, Control >", "match< apply_mode::nothing, M, Action, Control >", ["C13"], "enable<> does not enable"),
    ("m46b-disable-forwards", I + "internal/disable.hpp",
     "match< apply_mode::nothing, M, Action, Control >", "match< apply_mode::action, M, Action, Control >", ["C13"], "disable<> does not disable"),
    ("m47-at-forwards-action", I + "internal/at.hpp",
     "match< apply_mode::nothing, rewind_mode::optional, Action, Control >", "match< apply_mode::action, rewind_mode::optional, Action, Control >", ["C13"], "actions run inside at<>"),
    ("m48-depth-guard-exception", I + "contrib/input_with_depth.hpp",
     "         ~depth_guard()\n         {\n            --m_depth;\n         }", "         ~depth_guard()\n         {\n            if( std::uncaught_exceptions() == 0 ) {\n               --m_depth;\n            }\n         }", ["C18"], "needs <exception>"),
    ("m49-limit-depth-ge", I + "contrib/limit_depth.hpp",
     "if( dg.current_depth() > Maximum ) {", "if( dg.current_depth() >= Maximum ) {", ["C18"], ""),
    ("m50-limit-bytes-restore-success-only", I + "contrib/limit_bytes.hpp",
     "         ~bytes_guard()\n         {\n            m_in.private_set_end( m_end );\n         }", "         ~bytes_guard()\n         {\n            if( std::uncaught_exceptions() == 0 ) {\n               m_in.private_set_end( m_end );\n            }\n         }", ["C18"], ""),
    ("m53-signed-rule-optional", I + "contrib/integer.hpp",
     "return parse< signed_rule_new, nothing, normal, apply_mode::nothing, rewind_mode::required >( in );", "return parse< signed_rule_new >( in );", ["C02"], "the repaired F5"),
    ("m54-maximum-rule-peek", I + "contrib/integer.hpp",
     "} while( ( in.size( b + 1 ) > b ) && is_digit( c = in.peek_char( b ) ) );", "} while( ( !in.empty() ) && is_digit( c = in.peek_char( b ) ) );", ["C03"], "the repaired F6"),
    ("m55-coverage-raise-at", I + "contrib/coverage.hpp",
     "            ++result[ name ].raise;", "            ++result.at( name ).raise;", ["C08"], "the repaired coverage/raise defect"),
    ("m56-change-control-old", I + "change_control.hpp",
     "return TAO_PEGTL_NAMESPACE::match< Rule, A, M, Action, NewControl >( in, st... );", "return TAO_PEGTL_NAMESPACE::match< Rule, A, M, Action, Control >( in, st... );", ["C13"], ""),
    ("m57-must-no-raise-position", I + "normal.hpp",
     "            throw parse_error( \"parse error matching \" + std::string( demangle< Rule >() ), in );\n         }\n#else\n         static_assert( internal::dependent_false< Rule >, \"exception support required for normal< Rule >::raise()\" );",
     "            throw parse_error( \"parse error matching \" + std::string( demangle< Rule >() ), position( 0, 1, 1, in.source() ) );\n         }\n#else\n         static_assert( internal::dependent_false< Rule >, \"exception support required for normal< Rule >::raise()\" );", ["C05"], "error position always at the beginning"),
    ("m59-crlf-eol-size1", I + "internal/crlf_eol.hpp",
     "bool_and_size p = { false, in.size( 2 ) };", "bool_and_size p = { false, in.size( 1 ) };", ["C07"], "eol::crlf policy: CR|LF split across reads (I/O jobs, chunk 4)"),
    ("m60-cr-crlf-eol-size1", I + "internal/cr_crlf_eol.hpp",
     "bool_and_size p = { false, in.size( 2 ) };", "bool_and_size p = { false, in.size( 1 ) };", ["C07"], "eol::cr_crlf policy"),
    ("m11-cstream-error-as-eof", I + "internal/cstream_reader.hpp",
     "         if( std::feof( m_cstream ) != 0 ) {\n            return 0;\n         }", "         if( ( std::feof( m_cstream ) != 0 ) || ( std::ferror( m_cstream ) != 0 ) ) {\n            return 0;\n         }", ["C07"], "stream error treated as end of input"),
    ("m12-read-file-ignore-fread", I + "internal/read_file_stdio.hpp",
     "if( std::fread( buffer, length, 1, m_file.get() ) != 1 ) {", "if( ( std::fread( buffer, length, 1, m_file.get() ) != 1 ) && ( std::ferror( m_file.get() ) == 0 ) && ( std::feof( m_file.get() ) == 0 ) ) {", ["C07"], "failed whole-file read ignored"),
    ("m13-mmap-failure-ignored", I + "internal/mmap_file_posix.hpp",
     "if( ( m_size != 0 ) && ( reinterpret_cast< intptr_t >( m_data ) == -1 ) ) {", "if( ( m_size == 0 ) && ( reinterpret_cast< intptr_t >( m_data ) == -1 ) ) {", ["C07"], "MAP_FAILED not detected"),
    ("m61-istream-error-as-eof", I + "internal/istream_reader.hpp",
     "         if( m_istream.eof() ) {\n            return 0;\n         }", "         if( m_istream.eof() || m_istream.bad() ) {\n            return 0;\n         }", ["C07"], "badbit treated as end of input"),
    ("m62-check-bytes-ge", I + "contrib/check_bytes.hpp",
     "if( std::size_t( in.current() - start ) > Maximum ) {", "if( std::size_t( in.current() - start ) > Maximum + 1 ) {", ["C18"], "check_bytes lets one byte too many through"),
    ("m58-discard-threshold", I + "buffer_input.hpp",
     "if( m_current.data > m_buffer.get() + Chunk ) {", "if( m_current.data > m_buffer.get() + 2 * Chunk ) {", ["C07"], "discard() a no-op more often than documented: overflow_error inside the guarantee"),
    # combinators that stop dispatching through Control< Child >::match: a switch attached to the direct child is lost
    ("m65-enable-bypasses-child-control-match", I + "internal/enable.hpp",
     "return Control< Rule >::template match< apply_mode::action, M, Action, Control >( in, st... );", "return TAO_PEGTL_NAMESPACE::match< Rule, apply_mode::action, M, Action, Control >( in, st... );", ["C13"], "enable<R> skips Action<R>::match of R"),
    ("m66-state-bypasses-child-control-match", I + "internal/state.hpp",
     "            if( Control< Rule >::template match< A, M, Action, Control >( in, s ) ) {\n               s.success", "            if( TAO_PEGTL_NAMESPACE::match< Rule, A, M, Action, Control >( in, s ) ) {\n               s.success", ["C13"], "state<S,R> skips Action<R>::match of R (one of the two branches)"),
    ("m67-action-bypasses-child-control-match", I + "internal/action.hpp",
     "return Control< Rule >::template match< A, M, Action, Control >( in, st... );", "return TAO_PEGTL_NAMESPACE::match< Rule, A, M, Action, Control >( in, st... );", ["C13"], "action<A,R> skips NewAction<R>::match of R"),
    ("m68-must-bypasses-child-control-match", I + "internal/must.hpp",
     "if( !Control< Rule >::template match< A, rewind_mode::optional, Action, Control >( in, st... ) ) {", "if( !TAO_PEGTL_NAMESPACE::match< Rule, A, rewind_mode::optional, Action, Control >( in, st... ) ) {", ["C13"], "must<R> skips Action<R>::match of R"),
    # contrib adaptors / action-level hooks (fixed-grammar program 8, add_state in program 6)
    ("m69-rotate-right-is-left", I + "contrib/shuffle_states.hpp",
     "static constexpr std::size_t value = ( I + S - N ) % S;", "static constexpr std::size_t value = ( I + N ) % S;", ["C08"], "rotate_states_right rotates to the left"),
    ("m70-control-action-failure-skipped", I + "contrib/control_action.hpp",
     "         Action< Rule >::failure( const_cast< const ParseInput& >( in ), st... );\n         return false;", "         return false;", ["C08"], "control_action never reports failure to the action"),
    ("m71-add-state-success-always", I + "contrib/add_state.hpp",
     "            AddState s;\n            if( TAO_PEGTL_NAMESPACE::match< Rule, A, M, Action, Control >( in, s, st... ) ) {\n               if constexpr( A == apply_mode::action ) {", "            AddState s;\n            if( TAO_PEGTL_NAMESPACE::match< Rule, A, M, Action, Control >( in, s, st... ) ) {\n               if constexpr( true ) {", ["C13"], "add_state delivers success with actions disabled"),
    ("m75-mask-uint-size-minus-one", I + "contrib/internal/peek_mask_uint.hpp",
     "if( in.size( sizeof( data_t ) ) < sizeof( data_t ) ) {", "if( in.size( sizeof( data_t ) ) < sizeof( data_t ) - 1 ) {", ["C03"], "masked uintN rules read one byte beyond the end"),
    ("m76-raise-ignores-custom-message", I + "normal.hpp",
     "         if constexpr( internal::has_error_message< Rule > ) {\n            throw parse_error( Rule::error_message, in );", "         if constexpr( false ) {\n            throw parse_error( Rule::error_message, in );", ["C05"], "normal::raise uses the default message for a rule that has its own error_message"),
    ("m77-require-polls-forever", I + "buffer_input.hpp",
     "            if( r == 0 ) {\n               break;\n            }\n            m_end += r;", "            m_end += r;", ["C07"], "require() keeps calling the reader after it reported end of input (never returns)"),
    ("m78-star-spins-on-empty-match", I + "internal/until.hpp",
     "            if( in.empty() ) {\n               return false;\n            }\n            in.bump();", "            if( !in.empty() ) {\n               in.bump();\n            }", ["C02", "C03"], "until< R > spins at end of input instead of failing (no harness event inside the loop except rule attempts)"),
    ("m79-parse-nested-catches-everything", I + "parse.hpp",
     "      catch( std::exception& /*unused*/ ) {\n         Control< Rule >::raise_nested( am, st... );", "      catch( ... ) {\n         Control< Rule >::raise_nested( am, st... );", ["C05"], "parse_nested also converts exceptions that are not std::exception"),
    ("m80-parse-nested-inner-position", I + "parse.hpp",
     "         Control< Rule >::raise_nested( am, st... );", "         Control< Rule >::raise_nested( in, st... );", ["C05"], "parse_nested reports the inner input's position instead of the ambient one"),
    ("m81-variadic-disable-is-seq", I + "internal/disable.hpp",
     "   struct disable\n      : disable< seq< Rules... > >\n   {};", "   struct disable\n      : seq< Rules... >\n   {};", ["C13"], "disable< A, B > (variadic form) does not disable actions"),
    ("m82-variadic-at-consumes", I + "internal/at.hpp",
     "   struct at\n      : at< seq< Rules... > >\n   {};", "   struct at\n      : seq< Rules... >\n   {};", ["C02"], "at< A, B > (variadic form) consumes"),
    ("m73-tracer-unwind-no-pop", I + "contrib/trace.hpp",
     "      void unwind( const ParseInput& in, States&&... /*unused*/ )\n      {\n         const auto prev = m_stack.back();\n         m_stack.pop_back();", "      void unwind( const ParseInput& in, States&&... /*unused*/ )\n      {\n         const auto prev = m_stack.back();", ["C08"], "tracer keeps the entry of an unwound rule on its stack"),
    ("m74-state-control-apply0-not-forwarded", I + "contrib/state_control.hpp",
     "               state.template apply0< Rule >( in, st... );", "               (void)state;", ["C08"], "state_control does not tell the state about apply0"),
    ("m72-control-action-start-late", I + "contrib/control_action.hpp",
     "         Action< Rule >::start( const_cast< const ParseInput& >( in ), st... );\n         if( TAO_PEGTL_NAMESPACE::match< Rule, A, M, Action, Control >( in, st... ) ) {", "         if( TAO_PEGTL_NAMESPACE::match< Rule, A, M, Action, Control >( in, st... ) ) {\n            Action< Rule >::start( const_cast< const ParseInput& >( in ), st... );", ["C08"], "control_action reports start after the rule matched (and not at all on failure)"),
]

CHECK_TARGETS = {"C02": ["core"], "C03": ["core"], "C05": ["core", "io"], "C07": ["core", "io"], "C08": ["core", "cov", "io"], "C12": ["tree"], "C13": ["core", "io"], "C18": ["core"]}


def run(cmd, **kw):
    return subprocess.run(cmd, stdout=subprocess.PIPE, stderr=subprocess.STDOUT, text=True, **kw)


def apply_mutant(root, m):
    mid, path, old, new, checks, note = m
    f = os.path.join(root, path)
    s = open(f).read()
    if s.count(old) < 1:
        return f"pattern not found in {path}"
    if mid.startswith("m48") or mid.startswith("m50"):
        if "#include <exception>" not in s:
            s = s.replace("#include <cstddef>", "#include <cstddef>\n#include <exception>", 1) if "#include <cstddef>" in s else s.replace("#include <algorithm>", "#include <algorithm>\n#include <exception>", 1)
    s = s.replace(old, new, 1)
    open(f, "w").write(s)
    return None


SIM_SNAPSHOT = None


def sim_sources():
    """a private copy of the simulator sources, so that edits in /verif/sim during a long self-test do not leak into it"""
    global SIM_SNAPSHOT
    if SIM_SNAPSHOT is None:
        SIM_SNAPSHOT = os.path.join(SCRATCH, f"simsrc-{os.getpid()}")
        shutil.rmtree(SIM_SNAPSHOT, ignore_errors=True)
        shutil.copytree(os.path.join(VERIF, "sim"), SIM_SNAPSHOT)
    return SIM_SNAPSHOT


def test_tree(root, checks, runs, label):
    """build the simulator against root/include and run the checks; returns {check: (exit, tail)}"""
    build = os.path.join(root, "build", "asan")
    targets = sorted({t for c in checks for t in CHECK_TARGETS[c]})
    r = run(["make", "-C", sim_sources(), "-j16", "PEGTL_INCLUDE=" + os.path.join(root, "include"), "B=" + build] + targets)
    if r.returncode != 0:
        return {c: (-1, "BUILD FAILED: " + r.stdout[-600:]) for c in checks}
    out = {}
    env = dict(os.environ, PEGSIM_BUILD=build, PEGSIM_OUT=os.path.join(root, "out"))
    for c in checks:
        rr = subprocess.run([sys.executable, os.path.join(VERIF, "bin", "check.py"), c, "--no-build", "--runs", str(runs)], stdout=subprocess.PIPE, stderr=subprocess.STDOUT, text=True, env=env)
        out[c] = (rr.returncode, rr.stdout)
    return out


def cmd_mutants(ids, runs):
    os.makedirs(SCRATCH, exist_ok=True)
    results = []
    sel = [m for m in MUTANTS if not ids or any(m[0].startswith(i) for i in ids)]
    for m in sel:
        mid, path, old, new, checks, note = m
        root = os.path.join(SCRATCH, mid)
        shutil.rmtree(root, ignore_errors=True)
        os.makedirs(root)
        shutil.copytree("/repo/include", os.path.join(root, "include"))
        t0 = time.time()
        err = apply_mutant(root, m)
        if err:
            results.append((mid, "SKIPPED", err))
            print(f"{mid}: SKIPPED ({err})", flush=True)
            shutil.rmtree(root, ignore_errors=True)
            continue
        res = test_tree(root, checks, runs, mid)
        caught = [c for c, (rc, _) in res.items() if rc == 1]
        broken = [c for c, (rc, _) in res.items() if rc not in (0, 1)]
        lines = []
        for c, (rc, txt) in res.items():
            v = [l for l in txt.splitlines() if l.startswith("VIOLATION") or l.startswith("  C")][:2]
            if rc not in (0, 1):
                v = [" ".join(txt.split())[-700:]]
            lines.append(f"{c}: exit {rc} " + " | ".join(x.strip()[:700 if rc not in (0, 1) else 200] for x in v))
        status = "CAUGHT" if caught else ("BROKEN" if broken else "MISSED")
        results.append((mid, status, "; ".join(lines)))
        print(f"{mid}: {status} by {caught} expected {checks} ({time.time() - t0:.0f}s) {note}\n    " + "\n    ".join(lines), flush=True)
        shutil.rmtree(root, ignore_errors=True)
    path = os.path.join(VERIF, "selftest_mutants.json")
    merged = {}
    try:
        for e in json.load(open(path)):
            merged[e["id"]] = e
    except (OSError, ValueError):
        pass
    for a, b, c in results:
        merged[a] = {"id": a, "status": b, "detail": c}
    with open(path, "w") as f:
        json.dump([merged[k] for k in sorted(merged)], f, indent=1)
    missed = [r for r in results if r[1] != "CAUGHT"]
    if SIM_SNAPSHOT:
        shutil.rmtree(SIM_SNAPSHOT, ignore_errors=True)
    print(f"{len(results) - len(missed)}/{len(results)} mutants caught")
    return 0 if not missed else 1


# Property-preserving changes to taocpp/PEGTL: every check must stay quiet on them (specificity).
EQUIVALENTS = [
    ("q01-seq-single-rule-guarded", [(I + "internal/seq.hpp", "if constexpr( sizeof...( Rules ) == 1 ) {", "if constexpr( sizeof...( Rules ) == 0 ) {")],
     "seq< R > takes the general path (own rewind guard, sub-rule entered with the next rewind mode)"),
    ("q02-internal-seq-control-enabled", [(I + "internal/seq.hpp", "inline constexpr bool enable_control< seq< Rules... > > = false;", "inline constexpr bool enable_control< seq< Rules... > > = true;")],
     "hooks are delivered for internal::seq as well"),
    ("q03-discard-eager", [(I + "buffer_input.hpp", "if( m_current.data > m_buffer.get() + Chunk ) {", "if( m_current.data > m_buffer.get() ) {")],
     "discard() moves the data whenever anything was consumed"),
    ("q04-default-message-reworded", [(I + "normal.hpp", "throw parse_error( \"parse error matching \" + std::string( demangle< Rule >() ), in );", "throw parse_error( \"syntax error, expected \" + std::string( demangle< Rule >() ), in );"),
                                      (I + "normal.hpp", "std::throw_with_nested( parse_error( \"parse error matching \" + std::string( demangle< Rule >() ), am ) );", "std::throw_with_nested( parse_error( \"syntax error, expected \" + std::string( demangle< Rule >() ), am ) );")],
     "default global-failure message reworded (still names the rule)"),
    ("q05-limit-messages-reworded", [(I + "contrib/check_bytes.hpp", "\"maximum allowed rule consumption exceeded\"", "\"rule consumed more than allowed\""),
                                     (I + "contrib/limit_bytes.hpp", "error_message = \"maximum allowed rule consumption reached\"", "error_message = \"byte limit reached\""),
                                     (I + "contrib/limit_depth.hpp", "error_message = \"maximum parser rule nesting depth exceeded\"", "error_message = \"nesting too deep\"")],
     "custom messages of the limit facilities reworded"),
    ("q06-require-fills-buffer", [(I + "buffer_input.hpp", "( std::min )( buffer_free_after_end(), ( std::max )( amount - buffer_occupied(), Chunk ) )", "buffer_free_after_end()")],
     "require() always asks the reader for all the free space"),
]


def cmd_equivalents(ids, runs):
    os.makedirs(SCRATCH, exist_ok=True)
    allchecks = ["C02", "C03", "C05", "C07", "C08", "C12", "C13", "C18"]
    bad = 0
    out = []
    for qid, edits, note in EQUIVALENTS:
        if ids and not any(qid.startswith(i) for i in ids):
            continue
        root = os.path.join(SCRATCH, qid)
        shutil.rmtree(root, ignore_errors=True)
        os.makedirs(root)
        shutil.copytree("/repo/include", os.path.join(root, "include"))
        err = None
        for path, old, new in edits:
            fp = os.path.join(root, path)
            txt = open(fp).read()
            if txt.count(old) < 1:
                err = f"pattern not found in {path}: {old[:60]}"
                break
            open(fp, "w").write(txt.replace(old, new, 1))
        if err:
            print(f"{qid}: SKIPPED ({err})", flush=True)
            out.append({"id": qid, "status": "SKIPPED", "detail": err})
            bad += 1
            continue
        t0 = time.time()
        res = test_tree(root, allchecks, runs, qid)
        alarms = {c: txt for c, (rc, txt) in res.items() if rc != 0}
        status = "QUIET" if not alarms else "ALARM"
        detail = "; ".join(f"{c}: " + " | ".join(l.strip()[:300] for l in txt.splitlines() if l.startswith("VIOLATION") or l.startswith("  C") or "BUILD FAILED" in l)[:700] for c, txt in alarms.items())
        print(f"{qid}: {status} ({time.time() - t0:.0f}s) {note}\n    {detail}", flush=True)
        out.append({"id": qid, "status": status, "note": note, "detail": detail})
        if alarms:
            bad += 1
        else:
            shutil.rmtree(root, ignore_errors=True)
    path = os.path.join(VERIF, "selftest_equivalents.json")
    old = []
    if os.path.exists(path):
        old = [m for m in json.load(open(path)) if m["id"] not in {o["id"] for o in out}]
    json.dump(old + out, open(path, "w"), indent=1)
    return 1 if bad else 0


def cmd_determinism(n):
    build = os.path.join(VERIF, "build", "asan")
    bad = 0
    tmp = os.path.join(SCRATCH, "det")
    shutil.rmtree(tmp, ignore_errors=True)
    os.makedirs(tmp)
    plan = [("C02", "pegsim"), ("C03", "pegsim"), ("C05", "pegsim"), ("C07", "pegsim"), ("C07", "pegsim-io"), ("C05", "pegsim-io"), ("C08", "pegsim"), ("C08", "pegsim-cov"), ("C08", "pegsim-io"), ("C12", "pegsim-tree"), ("C13", "pegsim"), ("C13", "pegsim-io"), ("C18", "pegsim")]
    for check, binary in plan:
        maps = []
        for workers in (1, 5, 16):
            procs = []
            for w in range(workers):
                out = os.path.join(tmp, f"{check}-{binary}-{workers}-{w}")
                procs.append((subprocess.Popen([os.path.join(build, binary), "run", "--check", check, "--seed", "7", "--begin", "0", "--end", str(n), "--stride", str(workers), "--offset", str(w), "--hashes", "1", "--out", out], stdout=subprocess.DEVNULL, stderr=subprocess.DEVNULL), out))
            m = {}
            for p, out in procs:
                p.wait()
                with open(out + ".hashes") as f:
                    for line in f:
                        i, h = line.split()
                        m[int(i)] = h
            maps.append(m)
        same = maps[0] == maps[1] == maps[2]
        print(f"{check} {binary}: {len(maps[0])} indices, 1/5/16 workers identical: {same}")
        if not same:
            bad += 1
            for i in sorted(maps[0]):
                if maps[0][i] != maps[1].get(i) or maps[0][i] != maps[2].get(i):
                    print("   first difference at index", i)
                    break
    shutil.rmtree(tmp, ignore_errors=True)
    return 1 if bad else 0


def cmd_seeded(ids, runs):
    base = os.path.join(VERIF, "seeded")
    rc = 0
    for sid in sorted(os.listdir(base)) if os.path.isdir(base) else []:
        if ids and sid not in ids:
            continue
        d = os.path.join(base, sid)
        meta = json.load(open(os.path.join(d, "meta.json")))
        root = os.path.join(SCRATCH, "seeded-" + sid)
        shutil.rmtree(root, ignore_errors=True)
        os.makedirs(root)
        shutil.copytree("/repo/include", os.path.join(root, "include"))
        r = run(["patch", "-p1", "-d", root, "-i", os.path.join(d, "patch.diff")])
        if r.returncode != 0:
            print(f"{sid}: patch does not apply: {r.stdout[-300:]}")
            rc = 1
            shutil.rmtree(root, ignore_errors=True)
            continue
        checks = meta.get("checks", [meta["property"]])
        res = test_tree(root, checks, runs, sid)
        caught = [c for c, (x, _) in res.items() if x == 1]
        print(f"{sid}: property {meta['property']} -> caught by {caught or 'NONE'}")
        for c, (x, txt) in res.items():
            v = [l.strip()[:220] for l in txt.splitlines() if l.startswith("VIOLATION") or l.startswith("  C")][:2]
            print(f"    {c}: exit {x} " + " | ".join(v))
        if not caught:
            rc = 1
        shutil.rmtree(root, ignore_errors=True)
    return rc


if __name__ == "__main__":
    if len(sys.argv) < 2:
        print(__doc__)
        sys.exit(2)
    if sys.argv[1] == "mutants":
        sys.exit(cmd_mutants(sys.argv[2:], int(os.environ.get("SELFTEST_RUNS", "400000"))))
    if sys.argv[1] == "determinism":
        sys.exit(cmd_determinism(int(sys.argv[2]) if len(sys.argv) > 2 else 20000))
    if sys.argv[1] == "equivalents":
        sys.exit(cmd_equivalents(sys.argv[2:], int(os.environ.get("SELFTEST_RUNS", "300000"))))
    if sys.argv[1] == "seeded":
        sys.exit(cmd_seeded(sys.argv[2:], int(os.environ.get("SELFTEST_RUNS", "400000"))))
    print(__doc__)
    sys.exit(2)
