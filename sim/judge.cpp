#include "judge.hpp"

#include <cstdlib>
#include <sstream>

#include <fcntl.h>
#include <sys/wait.h>
#include <unistd.h>

#include "io.hpp"
#include "optable.hpp"

namespace sim
{
   bool set_available( SetId set );

   namespace
   {
      constexpr unsigned USER_SITES = ( 1u << SITE_ACTION ) | ( 1u << SITE_SUCCESS_HOOK ) | ( 1u << SITE_FAILURE_HOOK ) | ( 1u << SITE_STATE_CTOR ) | ( 1u << SITE_STATE_SUCCESS );
      constexpr unsigned READER_SITE = ( 1u << SITE_READER );
      constexpr unsigned ALLOC_SITE = ( 1u << SITE_ALLOC );

      unsigned chunk_of( SetId s )
      {
         return s == SET_BUF1 ? 1 : ( s == SET_BUF64 ? 64 : 3 );
      }

      // which stream configuration a job uses depends on seed, index and tier only (never on what a binary
      // happens to contain); a binary skips the jobs it cannot run
      SetId pick_buffer_set( Rng& r, bool thorough )
      {
         const unsigned k = r.below( thorough ? 3 : 2 );
         return k == 0 ? SET_BUF : ( k == 1 ? SET_BUF64 : SET_BUF1 );
      }

      bool is_buffer( SetId s )
      {
         return s == SET_BUF || s == SET_BUF1 || s == SET_BUF64;
      }
   }  // namespace

   namespace
   {
      Job make_job_from( const std::string& check, std::uint64_t s, std::uint64_t index, bool thorough, unsigned sweep_slot );
   }

   // Thorough tier: jobs with a fault plan or a stream plan come in groups of 16 that share grammar, input and
   // configuration; within a group the first fault sweeps k = 1..16 (every callback / reader call / allocation up
   // to the 16th) and every member gets its own read schedule. Quick tier: every index is an independent case.
   Job make_job( const std::string& check, std::uint64_t seed, std::uint64_t index, bool thorough )
   {
      const std::uint64_t s0 = mix64( seed, index );
      if( !thorough ) {
         return make_job_from( check, s0, index, thorough, 0 );
      }
      const Job probe = make_job_from( check, s0, index, thorough, 0 );
      if( probe.mode == MODE_IO || ( !probe.with_faults && !is_buffer( probe.set ) ) ) {
         return probe;
      }
      const std::uint64_t group = index / 128, slot = ( index / 8 ) % 16;
      return make_job_from( check, mix64( seed ^ 0x73776565ULL, group * 8 + index % 8 ), index, thorough, static_cast< unsigned >( slot ) + 1 );
   }

   namespace
   {
   Job make_job_from( const std::string& check, std::uint64_t s, std::uint64_t index, bool thorough, unsigned sweep_slot )
   {
      Rng r( mix64( s, 0x6a6f62 ) );
      Job j;
      j.check = check;
      GenParams p;
      p.max_input = 48;
      const unsigned sub = static_cast< unsigned >( index % 8 );

      if( check == "C02" ) {
         p.focus = r.chance( 3, 4 ) ? FOCUS_CONSUME : FOCUS_GENERAL;
         if( sub == 2 || sub == 6 ) {
            j.set = pick_buffer_set( r, thorough );
            p.discard_shapes = r.chance( 1, 3 );
         }
         else if( sub == 5 ) {
            j.set = SET_LAZY;
         }
         if( sub == 3 || sub == 7 ) {
            p.max_faults = 2;
            p.site_mask = USER_SITES;
         }
      }
      else if( check == "C03" ) {
         const Focus fs[] = { FOCUS_GENERAL, FOCUS_CONSUME, FOCUS_LIMITS, FOCUS_STREAM };
         p.focus = fs[ r.below( 4 ) ];
         if( sub == 1 || sub == 4 || sub == 6 ) {
            j.set = pick_buffer_set( r, thorough );
            p.discard_shapes = r.chance( 1, 2 );
         }
         else if( sub == 3 ) {
            j.set = SET_LAZY;
         }
         if( sub == 2 ) {
            p.focus = FOCUS_LIMITS;
         }
         if( sub == 7 ) {
            p.max_faults = 2;
            p.site_mask = USER_SITES;
         }
         if( sub == 6 ) {
            p.max_faults = 1;
            p.site_mask = READER_SITE | USER_SITES;
         }
      }
      else if( check == "C05" && sub == 4 && index % 16 == 4 ) {
         // must_if control over the recording control (fixed grammar, stock memory inputs)
         j.mode = MODE_IO;
         j.set = static_cast< SetId >( r.chance( 1, 2 ) ? IO_LAZY : IO_STRING );
         Case& c = j.c;
         c.prog = IO_PROG_MUSTIF;
         c.vetoseed = r.next();
         c.input = gen_io_input( mix64( s, 0x696f ), IO_PROG_MUSTIF, int( j.set ) );
         c.maximum = static_cast< std::uint32_t >( c.input.size() ) + 64;
         j.with_faults = false;
         return j;
      }
      else if( check == "C05" && sub == 4 && index % 16 == 12 ) {
         // parse_nested called from an action (fixed grammar, stock inputs)
         j.mode = MODE_IO;
         const SetId cls[] = { static_cast< SetId >( IO_LAZY ), static_cast< SetId >( IO_STRING ), static_cast< SetId >( IO_CSTREAM ), static_cast< SetId >( IO_ISTREAM ) };
         j.set = cls[ r.below( 4 ) ];
         Case& c = j.c;
         c.prog = IO_PROG_NESTED;
         c.vetoseed = r.next();
         c.input = gen_io_input( mix64( s, 0x696f ), IO_PROG_NESTED, int( j.set ) );
         c.maximum = static_cast< std::uint32_t >( c.input.size() ) + 64;
         if( int( j.set ) == IO_CSTREAM || int( j.set ) == IO_ISTREAM ) {
            gen_stream_plan( mix64( s, 0x706c616e ), c, 64 );
            c.maximum = static_cast< std::uint32_t >( c.input.size() ) + 64;
         }
         if( r.chance( 1, 2 ) ) {
            const std::uint8_t sites[] = { SITE_ACTION, SITE_ACTION, SITE_SUCCESS_HOOK, SITE_FAILURE_HOOK };
            const std::uint8_t cl[] = { EXC_FAULT, EXC_STD, EXC_PE, EXC_INT };
            c.faults.push_back( FaultOp{ sites[ r.below( 4 ) ], cl[ r.below( 4 ) ], static_cast< std::uint16_t >( r.range( 1, 8 ) ) } );
         }
         j.with_faults = !c.faults.empty();
         return j;
      }
      else if( check == "C05" ) {
         p.focus = r.chance( 5, 6 ) ? FOCUS_EXC : FOCUS_GENERAL;
         if( sub != 0 && sub != 4 ) {
            p.max_faults = 3;
            p.site_mask = USER_SITES;
         }
         if( sub == 3 || sub == 7 ) {
            j.set = pick_buffer_set( r, thorough );
            p.site_mask |= READER_SITE;
         }
         if( sub == 2 || sub == 6 ) {
            p.site_mask |= ALLOC_SITE;  // allocation failures inside the library (parse_error strings, sub-inputs)
         }
      }
      else if( check == "C08" && sub == 5 ) {
         // contrib control adaptors and control_action (fixed grammar, stock inputs)
         j.mode = MODE_IO;
         const SetId cls[] = { static_cast< SetId >( IO_LAZY ), static_cast< SetId >( IO_STRING ), static_cast< SetId >( IO_CSTREAM ), static_cast< SetId >( IO_ISTREAM ) };
         j.set = cls[ r.below( 4 ) ];
         Case& c = j.c;
         // 8: adaptors and control_action; 9 / 10: the tracer (JSON grammar)
         c.prog = r.chance( 1, 2 ) ? IO_PROG_HOOKS : ( r.chance( 1, 2 ) ? IO_PROG_TRACE : IO_PROG_TRACE + 1 );
         c.vetoseed = r.next();
         c.input = gen_io_input( mix64( s, 0x696f ), c.prog == IO_PROG_HOOKS ? IO_PROG_HOOKS : 1, int( j.set ) );
         c.maximum = static_cast< std::uint32_t >( c.input.size() ) + 64;
         if( int( j.set ) == IO_CSTREAM || int( j.set ) == IO_ISTREAM ) {
            gen_stream_plan( mix64( s, 0x706c616e ), c, 64 );
            c.maximum = static_cast< std::uint32_t >( c.input.size() ) + 64;
         }
         for( unsigned nf = r.below( 3 ); nf > 0; --nf ) {
            const std::uint8_t sites[] = { SITE_ACTION, SITE_ACTION, SITE_SUCCESS_HOOK, SITE_FAILURE_HOOK };
            const std::uint8_t cl[] = { EXC_FAULT, EXC_STD, EXC_PE, EXC_INT };
            c.faults.push_back( FaultOp{ sites[ r.below( 4 ) ], cl[ r.below( 4 ) ], static_cast< std::uint16_t >( r.range( 1, 10 ) ) } );
         }
         j.with_faults = !c.faults.empty();
         return j;
      }
      else if( check == "C08" ) {
         p.focus = r.chance( 3, 4 ) ? FOCUS_EXC : ( r.chance( 1, 2 ) ? FOCUS_STATE : FOCUS_GENERAL );
         if( sub != 0 ) {
            p.max_faults = 3;
            p.site_mask = USER_SITES;
         }
         if( ( sub == 3 || sub == 6 ) ) {
            j.mode = MODE_COVERAGE;
            j.set = SET_COV;
            p.fixed_modes = true;
         }
      }
      else if( check == "C13" && sub == 7 ) {
         // state scopes whose state type is default constructible only (fixed grammar, stock memory inputs)
         j.mode = MODE_IO;
         j.set = static_cast< SetId >( r.chance( 1, 2 ) ? IO_LAZY : IO_STRING );
         Case& c = j.c;
         c.prog = IO_PROG_STATES;
         c.vetoseed = r.next();
         c.input = gen_io_input( mix64( s, 0x696f ), IO_PROG_STATES, int( j.set ) );
         c.maximum = static_cast< std::uint32_t >( c.input.size() ) + 64;
         if( r.chance( 1, 2 ) ) {
            const std::uint8_t sites[] = { SITE_ACTION, SITE_SUCCESS_HOOK, SITE_FAILURE_HOOK, SITE_STATE_SUCCESS };
            const std::uint8_t cl[] = { EXC_FAULT, EXC_STD, EXC_PE, EXC_INT };
            c.faults.push_back( FaultOp{ sites[ r.below( 4 ) ], cl[ r.below( 4 ) ], static_cast< std::uint16_t >( r.range( 1, 8 ) ) } );
         }
         j.with_faults = !c.faults.empty();
         return j;
      }
      else if( check == "C13" ) {
         p.focus = FOCUS_STATE;
         if( sub >= 2 ) {
            p.max_faults = 3;
            p.site_mask = USER_SITES;
         }
      }
      else if( check == "C18" ) {
         p.focus = FOCUS_LIMITS;
         if( sub == 0 || sub == 4 ) {
            j.mode = MODE_UNGUARDED;
         }
         else if( sub >= 5 ) {
            p.max_faults = 2;
            p.site_mask = USER_SITES;
         }
      }
      else if( check == "C07" && sub == 1 ) {
         // fixed grammars through the stock file / stream / string / argv input classes
         j.mode = MODE_IO;
         j.set = static_cast< SetId >( IO_LAZY + r.below( IO_BUF_LF - IO_LAZY + 1 ) );
         Case& c = j.c;
         c.prog = 1 + r.below( IO_PROGS );
         const bool eol_class = ( int( j.set ) >= IO_BUF_CR );
         if( eol_class ) {
            c.prog = 2;  // the line grammar under the other end-of-line policies, chunk size 4
         }
         c.vetoseed = r.next();
         c.input = gen_io_input( mix64( s, 0x696f ), static_cast< int >( c.prog ), int( j.set ) );
         const bool stream = ( int( j.set ) == IO_CSTREAM || int( j.set ) == IO_ISTREAM );
         c.maximum = static_cast< std::uint32_t >( c.input.size() ) + 64;
         if( stream || int( j.set ) == IO_READ_FP ) {
            gen_stream_plan( mix64( s, 0x706c616e ), c, 64 );
            c.maximum = static_cast< std::uint32_t >( c.input.size() ) + 64;
         }
         if( eol_class ) {
            gen_stream_plan( mix64( s, 0x706c616e ), c, 4 );
            c.maximum = static_cast< std::uint32_t >( c.input.size() ) + 16;
         }
         const unsigned fk = r.below( 8 );
         if( fk == 0 && ( stream || eol_class || int( j.set ) == IO_READ_FP ) ) {
            c.faults.push_back( FaultOp{ SITE_READER, EXC_IO, static_cast< std::uint16_t >( r.range( 1, 4 ) ) } );
         }
         else if( fk == 1 && ( int( j.set ) == IO_READ || int( j.set ) == IO_READ_FP || int( j.set ) == IO_MMAP || int( j.set ) == IO_FILE ) ) {
            c.faults.push_back( FaultOp{ SITE_SYSCALL, EXC_IO, static_cast< std::uint16_t >( r.range( 1, 3 ) ) } );
         }
         else if( fk == 3 && int( j.set ) == IO_READ_FP && !c.input.empty() ) {
            c.short_by = r.range( 1, static_cast< std::uint32_t >( c.input.size() ) );  // the file shrank after its size was taken
         }
         else if( fk == 2 ) {
            c.faults.push_back( FaultOp{ SITE_ACTION, static_cast< std::uint8_t >( r.chance( 1, 2 ) ? EXC_FAULT : EXC_STD ), static_cast< std::uint16_t >( r.range( 1, 6 ) ) } );
         }
         j.with_faults = !c.faults.empty() || c.short_by != 0;
         return j;
      }
      else if( check == "C07" ) {
         j.mode = MODE_EQUAL;
         const Focus fs[] = { FOCUS_STREAM, FOCUS_STREAM, FOCUS_GENERAL, FOCUS_CONSUME, FOCUS_EXC };
         p.focus = fs[ r.below( 5 ) ];
         if( sub == 7 ) {
            j.set = SET_LAZY;
         }
         else {
            j.set = pick_buffer_set( r, thorough );
            p.discard_shapes = r.chance( 1, 2 );
         }
         if( sub == 2 || sub == 5 ) {
            p.max_faults = 2;
            p.site_mask = USER_SITES;
         }
         if( sub == 6 && is_buffer( j.set ) ) {
            p.max_faults = 1;
            p.site_mask = READER_SITE;
         }
      }
      else if( check == "C12" ) {
         j.mode = MODE_TREE;
         j.set = ( index % 2 == 0 ) ? SET_TREE : SET_TREE_UW;  // control without / with unwind()
         p.focus = r.chance( 3, 4 ) ? FOCUS_TREE : FOCUS_GENERAL;
         p.fixed_modes = true;
         if( sub >= 4 ) {
            p.max_faults = 3;
            p.site_mask = ( 1u << SITE_ACTION ) | ( 1u << SITE_SUCCESS_HOOK ) | ( 1u << SITE_FAILURE_HOOK );
            if( sub >= 6 ) {
               p.site_mask |= ALLOC_SITE;  // failing node / vector allocations inside the tree builder's own handlers
            }
         }
      }
      p.caps = set_capabilities( j.set );
      if( j.mode == MODE_EQUAL ) {
         p.caps &= set_capabilities( SET_MEM );
      }
      j.with_faults = p.max_faults > 0;
      j.c = gen_case( s, p );
      if( sweep_slot != 0 && !j.c.faults.empty() ) {
         j.c.faults[ 0 ].k = static_cast< std::uint16_t >( sweep_slot );
      }
      if( is_buffer( j.set ) ) {
         gen_stream_plan( mix64( s, 0x706c616e + sweep_slot ), j.c, chunk_of( j.set ) );
      }
      return j;
   }
   }  // namespace

   namespace
   {
      // An oracle of another property is only meaningful in configurations it was written for; elsewhere it is
      // not counted at all (its "violations" would say nothing about the code):
      //  - tree jobs: parse_tree::make_control replaces the hooks of the recording control, and parse_tree::parse
      //    has its own top-level protocol -> only C12 oracles;
      //  - must_if program: a rule that raises on failure never reaches the base control's failure hook (the
      //    must_if control saw the failure and chose to raise) -> no C08 oracles;
      //  - I/O jobs with an I/O fault plan: the exception at the caller comes from the environment -> no C05 oracles.
      bool foreign_applicable( const Job& j, const std::string& oracle )
      {
         if( j.mode == MODE_TREE ) {
            return false;
         }
         const bool c08 = oracle.compare( 0, 4, "C08." ) == 0;
         const bool c05 = oracle.compare( 0, 4, "C05." ) == 0;
         if( j.mode == MODE_IO ) {
            if( c08 && j.c.prog == IO_PROG_MUSTIF ) {
               return false;
            }
            if( c05 ) {
               const int cls = int( j.set );
               if( j.c.short_by != 0 || cls == IO_CSTREAM || cls == IO_ISTREAM || ( cls >= IO_BUF_CR && cls <= IO_BUF_LF ) ) {
                  return false;  // (stream classes: std::overflow_error from a small buffer is the environment's, too)
               }
               for( const FaultOp& f : j.c.faults ) {
                  if( f.site == SITE_READER || f.site == SITE_SYSCALL ) {
                     return false;
                  }
               }
            }
         }
         return true;
      }

      void split( const Job& j, std::vector< Violation >& all, Verdict& v )
      {
         const std::string& check = j.check;
         for( auto& x : all ) {
            const bool own = ( x.oracle.compare( 0, check.size() + 1, check + "." ) == 0 ) || x.oracle == "HARNESS";
            if( own ) {
               v.own.push_back( std::move( x ) );
            }
            else if( foreign_applicable( j, x.oracle ) ) {
               v.foreign.push_back( std::move( x ) );
            }
         }
         all.clear();
      }

      // Bounded progress. Every loop of the wired grammars has a body that cannot succeed without consuming
      // (gen.cpp: well_formed), and every other combinator attempts a bounded number of sub-rules. So a run that
      // exhausts the event budget while ONE rule invocation started more than 300 consecutive sub-rule attempts
      // at the same cursor position is not an expensive parse but a loop that makes no progress.
      void detect_spin( const RunResult& r, Verdict& v )
      {
         struct Fr
         {
            std::uint32_t rule, last_pos, same;
         };
         std::vector< Fr > st;
         for( const Event& e : r.h ) {
            if( e.kind == Ev::ENTER ) {
               if( !st.empty() && ( e.flags & F_NOPOS ) == 0 ) {
                  Fr& p = st.back();
                  if( p.same != 0 && p.last_pos == e.pos ) {
                     if( ++p.same > 300 ) {
                        v.spinning = true;
                        v.spin_detail = "rule #" + std::to_string( p.rule ) + " attempted more than 300 sub-rules in a row at position " + std::to_string( e.pos ) + " and the run exhausted its event budget";
                        v.spin_rule = p.rule;
                        return;
                     }
                  }
                  else {
                     p.same = 1;
                     p.last_pos = e.pos;
                  }
               }
               st.push_back( Fr{ e.rule, 0, 0 } );
            }
            else if( ( e.kind == Ev::EXIT || e.kind == Ev::EXC ) && !st.empty() ) {
               st.pop_back();
            }
         }
      }

      void account( const RunResult& r, Verdict& v )
      {
         if( r.aborted && !v.spinning ) {
            detect_spin( r, v );
         }
         v.events += r.h.size();
         for( const Event& e : r.h ) {
            if( e.kind == Ev::READ ) {
               ++v.reader_calls;
               v.bytes_delivered += static_cast< std::uint32_t >( e.x );
            }
         }
      }

      Case without_limits( const Case& c )
      {
         Case d = c;
         for( auto& row : d.g.n ) {
            if( row.op == OP_W_LD1 || row.op == OP_W_LD2 ) {  // only the depth guard promises unchanged behaviour below the limit
               row.op = OP_W_ID;
            }
         }
         return d;
      }
   }  // namespace

   bool job_runnable( const Job& j )
   {
      if( !set_available( j.set ) ) {
         return false;
      }
      if( j.mode == MODE_IO ) {
         return set_available( static_cast< SetId >( IO_MEM ) );
      }
      if( ( j.mode == MODE_EQUAL || j.mode == MODE_UNGUARDED ) && !set_available( SET_MEM ) ) {
         return false;
      }
      return true;
   }

   namespace
   {
      Verdict judge_impl( const Job& j );
   }

   Verdict judge( const Job& j )
   {
      Verdict v = judge_impl( j );
      if( v.spinning ) {
         // reported under the job's own property: whatever it promises about results presupposes that there is one
         Violation x;
         x.oracle = j.check + ".progress";
         x.key = ( v.spin_rule < g_rules.size() ) ? g_rules[ v.spin_rule ].name.substr( 0, g_rules[ v.spin_rule ].name.find( '<' ) ) : std::string( "?" );
         x.detail = v.spin_detail + " (" + ( v.spin_rule < g_rules.size() ? g_rules[ v.spin_rule ].name : std::string( "?" ) ) + ")";
         v.own.push_back( std::move( x ) );
         v.discarded = false;
      }
      return v;
   }

   namespace
   {
   Verdict judge_impl( const Job& j )
   {
      Verdict v;
      std::vector< Violation > all;
      switch( j.mode ) {
         case MODE_SINGLE: {
            const RunResult r = run_case( j.set, j.c );
            account( r, v );
            v.fingerprint = r.hash;
            if( r.aborted ) {
               v.discarded = true;
               return v;
            }
            check_history( j.c, j.set, r, all, v.f );
            break;
         }
         case MODE_EQUAL: {
            const RunResult ref = run_case( SET_MEM, j.c );
            account( ref, v );
            const RunResult alt = run_case( j.set, j.c );
            account( alt, v );
            v.fingerprint = mix64( ref.hash, alt.hash );
            if( ref.aborted || alt.aborted ) {
               v.discarded = true;
               return v;
            }
            Features fr;
            check_history( j.c, SET_MEM, ref, all, fr );
            check_history( j.c, j.set, alt, all, v.f );
            check_equal( j.c, SET_MEM, ref, j.set, alt, chunk_of( j.set ), all, v.f );
            v.f.nontrivial = v.f.nontrivial || fr.nontrivial;
            break;
         }
         case MODE_UNGUARDED: {
            const RunResult g = run_case( SET_MEM, j.c );
            account( g, v );
            const Case pc = without_limits( j.c );
            const RunResult p = run_case( SET_MEM, pc );
            account( p, v );
            v.fingerprint = mix64( g.hash, p.hash );
            if( g.aborted || p.aborted ) {
               v.discarded = true;
               return v;
            }
            check_history( j.c, SET_MEM, g, all, v.f );
            check_unguarded( j.c, g, p, all );
            break;
         }
         case MODE_TREE: {
            const RunResult r = run_case( j.set, j.c );
            account( r, v );
            v.fingerprint = r.hash;
            if( r.aborted ) {
               v.discarded = true;
               return v;
            }
            check_history( j.c, j.set, r, all, v.f );
            check_tree( j.c, r, all, v.f );
            break;
         }
         case MODE_IO: {
            const SetId ref_set = static_cast< SetId >( io_reference_of( int( j.set ) ) );
            const RunResult ref = run_case( ref_set, j.c );
            account( ref, v );
            const RunResult alt = run_case( j.set, j.c );
            account( alt, v );
            v.fingerprint = mix64( ref.hash, alt.hash );
            if( ref.aborted || alt.aborted ) {
               v.discarded = true;
               return v;
            }
            Features fr;
            check_history( j.c, ref_set, ref, all, fr );
            check_history( j.c, j.set, alt, all, v.f );
            check_equal( j.c, ref_set, ref, j.set, alt, 64, all, v.f );
            check_iofault( j.c, alt, all, v.f );
            v.f.nontrivial = true;
            break;
         }
         case MODE_COVERAGE: {
            const RunResult r = run_case( SET_COV, j.c );
            account( r, v );
            v.fingerprint = r.hash;
            if( r.aborted ) {
               v.discarded = true;
               return v;
            }
            check_history( j.c, SET_COV, r, all, v.f );
            check_coverage( j.c, r, all, v.f );
            break;
         }
      }
      split( j, all, v );
      return v;
   }
   }  // namespace

   bool is_fatal_oracle( const std::string& oracle )
   {
      return oracle.size() > 4 && ( oracle.compare( oracle.size() - 7, 7, ".poison" ) == 0 || oracle.compare( oracle.size() - 6, 6, ".crash" ) == 0 );
   }

   int judge_forked( const Job& j, const std::string& oracle )
   {
      std::fflush( nullptr );
      const pid_t pid = ::fork();
      if( pid < 0 ) {
         return 99;
      }
      if( pid == 0 ) {
         const int nul = ::open( "/dev/null", O_WRONLY );
         if( nul >= 0 ) {
            ::dup2( nul, 1 );
            ::dup2( nul, 2 );
         }
         // a run that does not end counts as one that ends the process (SIGALRM kills the child)
         const char* hs = std::getenv( "PEGSIM_HANG_S" );
         ::alarm( hs ? static_cast< unsigned >( std::atoi( hs ) ) : 20u );
         const Verdict v = judge( j );
         int code = 0;
         for( const auto& x : v.own ) {
            if( x.oracle == oracle ) {
               code = 1;
            }
         }
         for( const auto& x : v.foreign ) {
            if( x.oracle == oracle ) {
               code = 1;
            }
         }
         ::_exit( code );
      }
      int st = 0;
      if( ::waitpid( pid, &st, 0 ) < 0 ) {
         return 99;
      }
      if( WIFEXITED( st ) ) {
         const int c = WEXITSTATUS( st );
         return ( c == 0 || c == 1 || c == 77 ) ? c : 99;
      }
      return 99;
   }

   std::string job_to_text( const Job& j )
   {
      std::ostringstream o;
      o << "check " << j.check << "\n";
      o << "mode " << int( j.mode ) << "\n";
      o << "set " << int( j.set ) << "\n";
      o << "with_faults " << int( j.with_faults ) << "\n";
      o << case_to_text( j.c );
      return o.str();
   }

   bool job_from_text( const std::string& text, Job& j, std::string& err )
   {
      std::istringstream in( text );
      std::string line;
      j = Job();
      while( std::getline( in, line ) ) {
         std::istringstream ls( line );
         std::string key;
         ls >> key;
         if( key == "check" ) {
            ls >> j.check;
         }
         else if( key == "mode" ) {
            int m;
            ls >> m;
            j.mode = static_cast< JobMode >( m );
         }
         else if( key == "set" ) {
            int m;
            ls >> m;
            j.set = static_cast< SetId >( m );
         }
         else if( key == "with_faults" ) {
            int m;
            ls >> m;
            j.with_faults = m != 0;
         }
      }
      return case_from_text( text, j.c, err );
   }

}  // namespace sim
