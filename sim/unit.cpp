// One translation unit per ( set, dispatcher ): explicit instantiation definitions.
//   -DSIM_SET=<n>  and one of  -DSIM_UNIT_NODE=<i>  -DSIM_UNIT_ATOMS  -DSIM_UNIT_MINI=<j>
#include "sets.hpp"

#if defined( SIM_UNIT_NODE )
SIM_M4_MAIN( , sim::node< SIM_UNIT_NODE >, sim::sim_action )
#elif defined( SIM_UNIT_ATOMS )
SIM_M4_MAIN( , sim::atoms, sim::sim_action )
#elif defined( SIM_UNIT_MINI )
SIM_MINI_FAMILIES( , sim::mini< SIM_UNIT_MINI > )
#else
#error "no unit selected"
#endif
