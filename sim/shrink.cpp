// Greedy minimisation of a failing job: plan ops, input bytes and grammar rows are removed or
// simplified while the same oracle id keeps failing.
#include "judge.hpp"
#include "optable.hpp"

namespace sim
{
   namespace
   {
      struct Shrinker
      {
         std::string oracle;
         unsigned reruns = 0;
         bool force_fork = false;
         unsigned budget = 3000;  // in-process; forked candidates cost ~1-10 ms each

         bool fails( const Job& x )
         {
            if( reruns >= budget ) {
               return false;
            }
            ++reruns;
            if( !well_formed( x.c.g, x.c.shape ) ) {
               return false;
            }
            if( is_fatal_oracle( oracle ) ) {
               // the violation ends the process: every candidate runs in a forked child
               const int c = judge_forked( x, oracle );
               const bool poison = oracle.compare( oracle.size() - 7, 7, ".poison" ) == 0;
               return poison ? ( c == 77 ) : ( c == 99 );
            }
            if( force_fork ) {
               return judge_forked( x, oracle ) == 1;
            }
            const Verdict v = judge( x );
            if( v.discarded ) {
               return false;
            }
            for( const auto& a : v.own ) {
               if( a.oracle == oracle ) {
                  return true;
               }
            }
            for( const auto& a : v.foreign ) {
               if( a.oracle == oracle ) {
                  return true;
               }
            }
            return false;
         }

         bool try_apply( Job& best, const Job& cand )
         {
            if( fails( cand ) ) {
               best = cand;
               return true;
            }
            return false;
         }

         bool pass_faults( Job& b )
         {
            bool progress = false;
            for( std::size_t i = 0; i < b.c.faults.size(); ) {
               Job c = b;
               c.c.faults.erase( c.c.faults.begin() + static_cast< std::ptrdiff_t >( i ) );
               if( try_apply( b, c ) ) {
                  progress = true;
               }
               else {
                  ++i;
               }
            }
            for( std::size_t i = 0; i < b.c.faults.size(); ++i ) {
               while( b.c.faults[ i ].k > 1 ) {
                  Job c = b;
                  c.c.faults[ i ].k = static_cast< std::uint16_t >( c.c.faults[ i ].k - 1 );
                  if( !try_apply( b, c ) ) {
                     break;
                  }
                  progress = true;
               }
               if( b.c.faults[ i ].cls != EXC_FAULT && b.c.faults[ i ].site != SITE_READER && b.c.faults[ i ].site != SITE_ALLOC ) {
                  Job c = b;
                  c.c.faults[ i ].cls = EXC_FAULT;
                  progress |= try_apply( b, c );
               }
            }
            return progress;
         }

         bool pass_plan( Job& b )
         {
            bool progress = false;
            if( !b.c.reads.empty() ) {
               Job c = b;
               c.c.reads.clear();
               if( try_apply( b, c ) ) {
                  progress = true;
               }
               else {
                  // shorten from the end, then raise individual sizes
                  while( b.c.reads.size() > 1 ) {
                     Job d = b;
                     d.c.reads.resize( d.c.reads.size() / 2 );
                     if( !try_apply( b, d ) ) {
                        break;
                     }
                     progress = true;
                  }
                  while( !b.c.reads.empty() ) {
                     Job d = b;
                     d.c.reads.pop_back();
                     if( !try_apply( b, d ) ) {
                        break;
                     }
                     progress = true;
                  }
                  for( std::size_t i = 0; i < b.c.reads.size() && i < 64; ++i ) {
                     if( b.c.reads[ i ] != 1000 ) {
                        Job d = b;
                        d.c.reads[ i ] = 1000;
                        progress |= try_apply( b, d );
                     }
                  }
               }
            }
            const std::uint32_t big = static_cast< std::uint32_t >( b.c.input.size() ) + 64;
            if( b.c.maximum != big && b.c.maximum != 4096 ) {
               Job c = b;
               c.c.maximum = big;
               progress |= try_apply( b, c );
            }
            if( b.c.shape != 0 ) {
               Job c = b;
               c.c.shape = 0;
               if( try_apply( b, c ) ) {
                  progress = true;
               }
               else if( b.c.shape != 1 ) {
                  c = b;
                  c.c.shape = 1;
                  progress |= try_apply( b, c );
               }
            }
            if( b.c.topM != 0 ) {
               Job c = b;
               c.c.topM = 0;
               progress |= try_apply( b, c );
            }
            if( b.c.topA != 1 ) {
               Job c = b;
               c.c.topA = 1;
               progress |= try_apply( b, c );
            }
            return progress;
         }

         bool pass_input( Job& b )
         {
            bool progress = false;
            std::size_t chunk = b.c.input.size() / 2;
            while( chunk >= 1 ) {
               bool any = false;
               for( std::size_t at = 0; at + chunk <= b.c.input.size(); ) {
                  Job c = b;
                  c.c.input.erase( at, chunk );
                  if( try_apply( b, c ) ) {
                     any = true;
                     progress = true;
                  }
                  else {
                     at += chunk;
                  }
               }
               if( !any ) {
                  chunk /= 2;
               }
            }
            for( std::size_t i = 0; i < b.c.input.size(); ++i ) {
               if( b.c.input[ i ] != 'a' ) {
                  Job c = b;
                  c.c.input[ i ] = 'a';
                  progress |= try_apply( b, c );
               }
            }
            return progress;
         }

         bool pass_grammar( Job& b )
         {
            bool progress = false;
            const std::uint8_t simple[] = { ATOM_SUCCESS, ATOM_FAILURE, ATOM_ANY, ATOM_ONE_A };
            for( int i = NODES - 1; i >= 0; --i ) {
               NodeRow& row = b.c.g.n[ i ];
               if( row.op != OP_ATOM ) {
                  // replace the node by one of its children
                  const int ar = op_meta[ row.op ].arity;
                  bool done = false;
                  for( int k = 0; k < ar && !done; ++k ) {
                     const bool mk = ( row.op == OP_MINI && k == 0 ) || ( ( row.op == OP_MINUS || row.op == OP_REMATCH || row.op == OP_REMATCH2 ) && k >= 1 );
                     if( mk ) {
                        continue;
                     }
                     const int child = row.kid[ k ] % NODES;
                     if( child == i ) {
                        continue;
                     }
                     Job c = b;
                     c.c.g.n[ i ] = b.c.g.n[ child ];
                     if( try_apply( b, c ) ) {
                        progress = true;
                        done = true;
                     }
                  }
                  if( done ) {
                     continue;
                  }
               }
               for( std::uint8_t a : simple ) {
                  if( row.op == OP_ATOM && row.atom == a ) {
                     break;
                  }
                  Job c = b;
                  c.c.g.n[ i ] = NodeRow();
                  c.c.g.n[ i ].op = OP_ATOM;
                  c.c.g.n[ i ].atom = a;
                  if( try_apply( b, c ) ) {
                     progress = true;
                     break;
                  }
               }
               // simpler combinator with the same children
               if( b.c.g.n[ i ].op != OP_ATOM && b.c.g.n[ i ].op != OP_SEQ2 && op_meta[ b.c.g.n[ i ].op ].arity >= 2 ) {
                  Job c = b;
                  c.c.g.n[ i ].op = OP_SEQ2;
                  progress |= try_apply( b, c );
               }
            }
            for( int j = MINIS - 1; j >= 0; --j ) {
               NodeRow& row = b.c.g.m[ j ];
               const std::uint8_t msimple[] = { MATOM_SUCCESS, MATOM_FAILURE, MATOM_ANY, MATOM_ONE_A };
               for( std::uint8_t a : msimple ) {
                  if( row.op == MOP_ATOM && row.atom == a ) {
                     break;
                  }
                  Job c = b;
                  c.c.g.m[ j ] = NodeRow();
                  c.c.g.m[ j ].op = MOP_ATOM;
                  c.c.g.m[ j ].atom = a;
                  if( try_apply( b, c ) ) {
                     progress = true;
                     break;
                  }
               }
            }
            return progress;
         }
      };
   }  // namespace

   Job shrink_job( const Job& j, const std::string& oracle, unsigned& reruns, bool force_fork )
   {
      Shrinker s;
      s.oracle = oracle;
      s.force_fork = force_fork;
      if( force_fork ) {
         s.budget = 1200;
      }
      Job best = j;
      for( int round = 0; round < 6; ++round ) {
         bool progress = false;
         progress |= s.pass_faults( best );
         progress |= s.pass_plan( best );
         progress |= s.pass_grammar( best );
         progress |= s.pass_input( best );
         if( !progress || s.reruns >= s.budget ) {
            break;
         }
      }
      reruns = s.reruns;
      return best;
   }

}  // namespace sim
