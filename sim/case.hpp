// A case = everything that determines one simulated run (besides the code under test).
#pragma once

#include <cstdint>
#include <string>
#include <vector>

#include "world.hpp"

namespace sim
{
   enum SetId : std::uint8_t
   {
      SET_MEM = 1,    // sim_mem< eager >           (reference)
      SET_BUF = 2,    // sim_buf< chunk >
      SET_LAZY = 3,   // sim_mem< lazy >
      SET_TREE = 4,   // parse_tree control
      SET_COV = 5,    // coverage (state_control)
      SET_BUF1 = 7,   // sim_buf< 1 >
      SET_BUF64 = 8,  // sim_buf< 64 >
      SET_TREE_UW = 9,  // parse_tree control over a control with unwind()  (SET_TREE: without)
      // 20 .. 29: stock input classes of the I/O jobs, see io.hpp
   };

   struct Case
   {
      std::uint32_t prog = 0;  // 0 = wired grammar; >0 fixed programs
      std::uint8_t shape = 0;
      std::uint8_t topA = 1;   // 1 = apply_mode::action
      std::uint8_t topM = 0;   // 1 = rewind_mode::required
      Grammar g;
      std::string input;
      std::uint64_t vetoseed = 0;
      std::vector< FaultOp > faults;
      // environment of stream configurations
      std::uint32_t maximum = 64;
      std::vector< std::uint16_t > reads;
      std::uint32_t short_by = 0;  // I/O jobs: the stream ends this many bytes before the size it reports
   };

   struct TreeNode
   {
      std::uint64_t type = 0;  // name hash ( 0 = root )
      std::string type_name;
      std::uint32_t b = NOPOS, bl = 0, bc = 0, e = NOPOS, el = 0, ec = 0;
      bool has_content = false;
      bool content_ok = true;   // string_view() and string() of the node are exactly the input bytes [ b, e )
      std::uint32_t nchildren = 0;
      std::uint32_t depth = 0;
   };

   struct CovEntry
   {
      std::string rule, branch;  // branch empty = the rule's own counters
      std::uint64_t start = 0, success = 0, failure = 0, unwind = 0, raise = 0, raise_nested = 0;
   };

   struct RunResult
   {
      std::vector< Event > h;
      std::vector< ExcInfo > excs;
      bool aborted = false;
      std::uint32_t asan_hits = 0;
      std::uint32_t faults_fired = 0;
      std::uint32_t max_depth = 0;
      std::uint32_t reads_after_eof = 0;
      std::uint64_t hash = 0;
      // tree / coverage sets
      bool have_tree = false;
      bool tree_null = true;
      bool tree_lazy = false;  // built over a lazily tracking input: nodes carry data pointers only, no byte / line / column
      std::uint32_t tree_stack = 0;
      std::vector< TreeNode > tree;  // preorder
      std::vector< CovEntry > cov;
   };

   // one entry point per compiled set
   RunResult run_set1( const Case& c );
   RunResult run_set2( const Case& c );
   RunResult run_set3( const Case& c );
   RunResult run_set4( const Case& c );
   RunResult run_set5( const Case& c );
   RunResult run_set7( const Case& c );
   RunResult run_set8( const Case& c );
   RunResult run_set9( const Case& c );
   RunResult run_case( SetId set, const Case& c );
   unsigned set_capabilities( SetId set );  // CAP_* mask

   std::string case_to_text( const Case& c );
   bool case_from_text( const std::string& text, Case& c, std::string& err );

}  // namespace sim
