// The simulated environment seen by PEGTL: inputs, reader, control, actions, states.
// Everything here only records and delegates to the real PEGTL implementation.
#pragma once

#include <cstring>
#include <cstddef>
#include <cstdint>
#include <string>
#include <type_traits>

#include <tao/pegtl.hpp>
#include <tao/pegtl/contrib/input_with_depth.hpp>
#include <tao/pegtl/contrib/parse_tree.hpp>
#if defined( SIM_COVERAGE_LAZY )
#include <tao/pegtl/contrib/coverage.hpp>
#endif

#include "world.hpp"

#if defined( __SANITIZE_ADDRESS__ )
#include <sanitizer/asan_interface.h>
#define SIM_POISON( p, n ) __asan_poison_memory_region( ( p ), ( n ) )
#define SIM_UNPOISON( p, n ) __asan_unpoison_memory_region( ( p ), ( n ) )
#else
#define SIM_POISON( p, n ) ( (void)( p ), (void)( n ) )
#define SIM_UNPOISON( p, n ) ( (void)( p ), (void)( n ) )
#endif

namespace sim
{
   namespace pegtl = tao::pegtl;

   // ------------------------------------------------------------ cursor snapshots
   struct Snap
   {
      std::uint32_t pos = NOPOS, byte = NOPOS, line = 0, col = 0, endoff = NOPOS, depth = 0;
      std::uint8_t flags = 0;
   };

   template< typename T >
   inline constexpr int input_kind = 0;  // 0 = plain PEGTL input (sub-input), 1 = sim_mem, 2 = sim_buf

   template< typename T, typename = void >
   inline constexpr bool has_depth = false;
   template< typename T >
   inline constexpr bool has_depth< T, std::void_t< decltype( std::declval< const T& >().current_depth() ) > > = true;

   template< typename T, typename = void >
   inline constexpr bool is_plain_buffer = false;
   template< typename T >
   inline constexpr bool is_plain_buffer< T, std::void_t< decltype( std::declval< const T& >().buffer_occupied() ) > > = ( input_kind< T > != 2 );

   inline std::uint32_t arena_off( const char* p ) noexcept
   {
      if( p >= W.arena - GUARD && p <= W.arena + W.xlen + GUARD ) {
         return static_cast< std::uint32_t >( p - W.arena );
      }
      return NOPOS;
   }

   template< typename In >
   Snap snap( const In& in )
   {
      Snap s;
      if constexpr( input_kind< In > == 2 ) {
         in.sim_snap( s );
      }
      else if constexpr( is_plain_buffer< In > ) {
         // a stock stream input (cstream_input, istream_input): no stable data pointer, counters only
         s.byte = s.pos = static_cast< std::uint32_t >( in.byte() );
         s.line = static_cast< std::uint32_t >( in.line() );
         s.col = static_cast< std::uint32_t >( in.column() );
         s.endoff = static_cast< std::uint32_t >( s.byte + in.buffer_occupied() );
         s.flags |= F_SUB;
      }
      else {
         s.byte = static_cast< std::uint32_t >( in.byte() );
         if constexpr( In::tracking_mode_v == pegtl::tracking_mode::eager ) {
            s.line = static_cast< std::uint32_t >( in.line() );
            s.col = static_cast< std::uint32_t >( in.column() );
         }
         else {
            const auto p = in.position();
            s.line = static_cast< std::uint32_t >( p.line );
            s.col = static_cast< std::uint32_t >( p.column );
         }
         const std::uint32_t po = arena_off( in.current() );
         s.pos = ( po == NOPOS ) ? s.byte : po;  // sub-input over a stream buffer: no stable pointer offset
         const std::uint32_t eo = arena_off( in.end() );
         s.endoff = ( eo == NOPOS ) ? static_cast< std::uint32_t >( s.byte + ( in.end() - in.current() ) ) : eo;
         if constexpr( input_kind< In > == 0 ) {
            s.flags |= F_SUB;
         }
      }
      if constexpr( has_depth< In > ) {
         s.depth = static_cast< std::uint32_t >( in.current_depth() );
      }
      return s;
   }

   struct sim_state;
#if defined( SIM_COVERAGE_LAZY )
   extern pegtl::coverage_result* g_cov_result;
#endif

   template< typename AI >
   Snap action_snap( const AI& ai )
   {
      Snap s;
      if constexpr( std::is_same_v< typename AI::inputerator_t, const char* > ) {
         s.byte = s.pos = static_cast< std::uint32_t >( ai.input().byte() - static_cast< std::size_t >( ai.end() - ai.begin() ) );
         const auto p = ai.position();
         s.line = static_cast< std::uint32_t >( p.line );
         s.col = static_cast< std::uint32_t >( p.column );
      }
      else {
         s.byte = static_cast< std::uint32_t >( ai.inputerator().byte );
         s.line = static_cast< std::uint32_t >( ai.inputerator().line );
         s.col = static_cast< std::uint32_t >( ai.inputerator().column );
         const std::uint32_t po = arena_off( ai.begin() );
         s.pos = ( po == NOPOS ) ? s.byte : po;
      }
      return s;
   }

   template< typename T, typename = void >
   inline constexpr bool is_action_input = false;
   template< typename T >
   inline constexpr bool is_action_input< T, std::void_t< typename T::input_t > > = true;

   // snap for anything with a position (parse inputs and action inputs)
   template< typename In >
   Snap snap_any( const In& in )
   {
      if constexpr( is_action_input< In > ) {
         return action_snap( in );
      }
      else {
         return snap( in );
      }
   }

   void log_event( Ev k, std::uint32_t rule, std::uint8_t flags, std::uint8_t afam, std::uint8_t cfam, const Snap& s, std::uint32_t sid, std::uint64_t x = 0, std::uint32_t y = 0 );
   void on_enter();  // fuel / depth accounting; throws sim_abort
   void on_leave() noexcept;
   [[noreturn]] void throw_simple( std::uint8_t cls, std::uint32_t id );
   void log_fault( Site s, std::uint8_t cls, std::uint32_t id, const Snap& sn );

   struct Suspend  // harness code that may allocate: outside the ALLOC_FAIL window
   {
      bool old;
      Suspend() noexcept
         : old( W.in_library )
      {
         W.in_library = false;
      }
      ~Suspend()
      {
         W.in_library = old;
      }
      Suspend( const Suspend& ) = delete;
      void operator=( const Suspend& ) = delete;
   };

   template< typename In >
   [[noreturn]] __attribute__( ( noinline, cold ) ) void throw_fault( Site s, std::uint8_t cls, std::uint32_t id, const In& in )
   {
      {
         Suspend sp;
         log_fault( s, cls, id, snap_any( in ) );
      }
      if( cls == EXC_PE ) {
         Suspend sp;
         throw pegtl::parse_error( "sim#" + std::to_string( id ), in );
      }
      throw_simple( cls, id );
   }

   template< typename In >
   inline void maybe_fault( Site s, const In& in )
   {
      std::uint32_t id = 0;
      const std::uint8_t c = W.fault_at( s, id );
      if( c != EXC_NONE ) {
         throw_fault( s, c, id, in );
      }
   }

   // ------------------------------------------------------------ states
   inline std::uint32_t sid_of() noexcept
   {
      return 0;
   }
   template< typename T, typename... Ts >
   std::uint32_t sid_of( const T& t, const Ts&... ts ) noexcept
   {
      if constexpr( std::is_base_of_v< sim_state, std::decay_t< T > > ) {
         return t.id;
      }
      else {
         return sid_of( ts... );
      }
   }

   struct sim_state
   {
      std::uint32_t id;

      sim_state()  // root state, or a state default-constructed by change_states
         : id( W.next_state_id++ )
      {
         Snap s;
         s.flags = F_NOPOS;
         log_event( Ev::S_CTOR, 0, s.flags, 0, 0, s, id, 0 );
      }

      template< typename In, typename... Outer >
      explicit sim_state( const In& in, Outer&&... outer )
         : id( W.next_state_id++ )
      {
         maybe_fault( SITE_STATE_CTOR, in );  // a constructor that throws leaves no object (and no S_CTOR event)
         log_event( Ev::S_CTOR, 0, 0, 0, 0, snap( in ), id, sid_of( outer... ) );
      }

      sim_state( const sim_state& ) = delete;
      void operator=( const sim_state& ) = delete;

      ~sim_state()
      {
         Snap s;
         s.flags = F_NOPOS;
         log_event( Ev::S_DTOR, 0, s.flags, 0, 0, s, id, 0 );
      }

      template< typename In, typename... Outer >
      void success( const In& in, Outer&&... outer )
      {
         log_event( Ev::S_SUCCESS, 0, 0, 0, 0, snap( in ), id, sid_of( outer... ) );
         maybe_fault( SITE_STATE_SUCCESS, in );
      }
   };

   // ------------------------------------------------------------ parse tree selector (specialised in grammar.hpp)
   template< typename Rule >
   struct sim_selector : std::false_type
   {};

   // 0 store_content, 2 remove_content, 3 fold_one, 4 discard_empty, -1 not selected
   template< typename Rule >
   constexpr int selector_kind()
   {
      if constexpr( !pegtl::internal::enable_control< Rule > || !sim_selector< Rule >::value ) {
         return -1;
      }
      else if constexpr( std::is_base_of_v< pegtl::parse_tree::remove_content, sim_selector< Rule > > ) {
         return 2;
      }
      else if constexpr( std::is_base_of_v< pegtl::parse_tree::fold_one, sim_selector< Rule > > ) {
         return 3;
      }
      else if constexpr( std::is_base_of_v< pegtl::parse_tree::discard_empty, sim_selector< Rule > > ) {
         return 4;
      }
      else {
         return 0;
      }
   }

   // ------------------------------------------------------------ rule ids
   template< typename Rule >
   inline constexpr bool is_dispatch = false;  // kid / mkid / atoms: invisible plumbing

   template< typename Rule >
   std::uint32_t rid()
   {
      static const std::uint32_t id = register_rule( pegtl::demangle< Rule >(), pegtl::normal< Rule >::enable && !is_dispatch< Rule >, selector_kind< Rule >() );
      return id;
   }

   // ------------------------------------------------------------ rematch sub-inputs
   // A rematch<> sub-input ends where the head rule stopped; while rules run on it, the bytes between that
   // end and the end of the enclosing window are outside the data this input makes available.
   void sub_window_enter( const char* sub_end ) noexcept;
   void sub_window_leave() noexcept;

   template< typename In >
   struct SubWindow
   {
      explicit SubWindow( const In& in ) noexcept
      {
         if constexpr( input_kind< In > == 0 && !is_plain_buffer< In > ) {
            sub_window_enter( in.end() );
         }
      }
      ~SubWindow()
      {
         if constexpr( input_kind< In > == 0 && !is_plain_buffer< In > ) {
            sub_window_leave();
         }
      }
      SubWindow( const SubWindow& ) = delete;
      void operator=( const SubWindow& ) = delete;
   };

   // ------------------------------------------------------------ control
   template< typename Rule, int CF >
   struct ctl_impl
      : pegtl::normal< Rule >
   {
      static constexpr bool enable = pegtl::normal< Rule >::enable && !is_dispatch< Rule >;
      static constexpr int control_family = CF;

      template< typename In, typename... St >
      static void start( const In& in, St&&... st )
      {
         log_event( Ev::START, rid< Rule >(), 0, 0, CF, snap( in ), sid_of( st... ) );
      }

      template< typename In, typename... St >
      static void success( const In& in, St&&... st )
      {
         log_event( Ev::SUCCESS, rid< Rule >(), 0, 0, CF, snap( in ), sid_of( st... ) );
         // never throw from the hooks of the discard rule itself: an exception passing through an enclosing
         // rewind guard right after the buffer was discarded is backtracking across a discard, which the
         // documentation excludes
         if constexpr( !std::is_same_v< Rule, pegtl::discard > ) {
            maybe_fault( SITE_SUCCESS_HOOK, in );
         }
      }

      template< typename In, typename... St >
      static void failure( const In& in, St&&... st )
      {
         log_event( Ev::FAILURE, rid< Rule >(), 0, 0, CF, snap( in ), sid_of( st... ) );
         maybe_fault( SITE_FAILURE_HOOK, in );
      }

      template< typename In, typename... St >
      [[noreturn]] static void raise( const In& in, St&&... st )
      {
         // y: fingerprint of the rule's custom error message, 0 if it has none (then the default message names the rule)
         std::uint32_t mh = 0;
         if constexpr( pegtl::internal::has_error_message< Rule > ) {
            mh = static_cast< std::uint32_t >( fnv1a( Rule::error_message, std::strlen( Rule::error_message ) ) ) | 1u;
         }
         log_event( Ev::RAISE, rid< Rule >(), 0, 0, CF, snap( in ), sid_of( st... ), 0, mh );
         pegtl::normal< Rule >::raise( in, st... );
      }

      template< typename Ambient, typename... St >
      [[noreturn]] static void raise_nested( const Ambient& am, St&&... st )
      {
         Snap s;
         const pegtl::position p = pegtl::internal::get_position( am );
         s.byte = s.pos = static_cast< std::uint32_t >( p.byte );
         s.line = static_cast< std::uint32_t >( p.line );
         s.col = static_cast< std::uint32_t >( p.column );
         std::uint32_t mh = 0;
         if constexpr( pegtl::internal::has_error_message< Rule > ) {
            mh = static_cast< std::uint32_t >( fnv1a( Rule::error_message, std::strlen( Rule::error_message ) ) ) | 1u;
         }
         log_event( Ev::RAISE_NESTED, rid< Rule >(), 0, 0, CF, s, sid_of( st... ), 0, mh );
         pegtl::normal< Rule >::raise_nested( am, st... );
      }

      template< template< typename... > class Action, typename Iterator, typename In, typename... St >
      static auto apply( const Iterator& begin, const In& in, St&&... st )
         -> decltype( pegtl::normal< Rule >::template apply< Action >( begin, in, st... ) )
      {
         std::uint64_t b;
         if constexpr( std::is_same_v< Iterator, const char* > ) {
            b = static_cast< std::uint64_t >( in.byte() ) - static_cast< std::uint64_t >( in.current() - begin );
         }
         else {
            b = begin.byte;
         }
         log_event( Ev::APPLY, rid< Rule >(), 0, Action< void >::family, CF, snap( in ), sid_of( st... ), b );
         return pegtl::normal< Rule >::template apply< Action >( begin, in, st... );
      }

      template< template< typename... > class Action, typename In, typename... St >
      static auto apply0( const In& in, St&&... st )
         -> decltype( pegtl::normal< Rule >::template apply0< Action >( in, st... ) )
      {
         log_event( Ev::APPLY0, rid< Rule >(), 0, Action< void >::family, CF, snap( in ), sid_of( st... ) );
         return pegtl::normal< Rule >::template apply0< Action >( in, st... );
      }

      template< pegtl::apply_mode A, pegtl::rewind_mode M, template< typename... > class Action, template< typename... > class Control, typename In, typename... St >
      [[nodiscard]] static bool match( In& in, St&&... st )
      {
         constexpr std::uint8_t fl = ( A == pegtl::apply_mode::action ? F_ACTION : 0 ) | ( M == pegtl::rewind_mode::required ? F_REQUIRED : 0 );
         const std::uint32_t r = rid< Rule >();
         log_event( Ev::ENTER, r, fl, Action< void >::family, CF, snap( in ), sid_of( st... ) );
#if defined( SIM_COVERAGE_LAZY )
         // the coverage map is filled rule by rule right before a rule's first hooks, with the facility's own
         // coverage_insert<>, instead of by visit<>() over the whole wired rule graph (quadratic compile time)
         {
            static std::uint64_t inserted_in_run = 0;  // once per rule and run
            if( inserted_in_run != W.run_generation ) {
               inserted_in_run = W.run_generation;
               Suspend sp;
               pegtl::internal::coverage_insert< Rule >::visit( *g_cov_result );
            }
         }
#endif
         try {
            on_enter();
            const SubWindow< In > sw( in );
            const bool result = pegtl::normal< Rule >::template match< A, M, Action, Control >( in, st... );
            on_leave();
            log_event( Ev::EXIT, r, fl | ( result ? F_RESULT : 0 ), Action< void >::family, CF, snap( in ), sid_of( st... ) );
            return result;
         }
         catch( ... ) {
            on_leave();
            const std::uint32_t xi = classify_current_exception();
            log_event( Ev::EXC, r, fl, Action< void >::family, CF, snap( in ), sid_of( st... ), xi );
            throw;
         }
      }
   };

   template< typename Rule >
   struct sim_control
      : ctl_impl< Rule, 1 >
   {
      template< typename In, typename... St >
      static void unwind( const In& in, St&&... st )
      {
         log_event( Ev::UNWIND, rid< Rule >(), 0, 0, 1, snap( in ), sid_of( st... ) );
      }
   };

   // second control family: same recording, but without unwind()
   template< typename Rule >
   struct ctl2
      : ctl_impl< Rule, 2 >
   {};

   // ------------------------------------------------------------ actions
   void log_action( Ev k, std::uint32_t rule, std::uint8_t fam, const Snap& begin, std::uint32_t e, std::uint32_t chash, std::uint32_t sid, bool result );
   void soft_violation( std::uint32_t what, std::uint64_t value, const Snap& s );
   const char* g_buf_base() noexcept;
   const char* g_buf_end() noexcept;

   template< typename T, typename = void >
   inline constexpr bool has_buffer_occupied = false;
   template< typename T >
   inline constexpr bool has_buffer_occupied< T, std::void_t< decltype( std::declval< const T& >().buffer_occupied() ) > > = true;

   // the span handed to an action must lie inside the data the input currently makes available;
   // checked before the harness reads it (content hash)
   template< typename AI >
   std::uint32_t span_hash( const AI& ai, const Snap& b )
   {
      const char* lo;
      const char* hi;
      if constexpr( has_buffer_occupied< typename AI::input_t > ) {
         lo = g_buf_base();
         if constexpr( input_kind< typename AI::input_t > == 2 ) {
            hi = g_buf_end();  // simulated stream: the harness's own account of the delivered, undiscarded data
         }
         else {
            hi = ai.input().current() + ai.input().buffer_occupied();  // stock stream inputs of the I/O jobs
         }
      }
      else {
         lo = ai.input().begin();
         hi = ai.input().end();
      }
      if( ai.end() < ai.begin() || ai.begin() < lo || ai.end() > hi ) {
         soft_violation( 7, static_cast< std::uint64_t >( ai.end() - ai.begin() ), b );
         return 0;
      }
      return static_cast< std::uint32_t >( fnv1a( ai.begin(), ai.size() ) );
   }

   // K: 0 none, 1 void apply, 2 bool apply, 3 void apply0, 4 bool apply0
   template< typename Rule, int K, int FAM >
   struct act_kind;

   template< typename Rule, int FAM >
   struct act_kind< Rule, 0, FAM >
      : pegtl::nothing< Rule >
   {
      static constexpr int family = FAM;
   };

   template< typename Rule, int FAM, bool Bool >
   struct act_apply
   {
      static constexpr int family = FAM;

      template< typename AI, typename... St >
      static auto apply( const AI& ai, St&&... st ) -> std::conditional_t< Bool, bool, void >
      {
         const Snap b = action_snap( ai );
         const std::uint32_t e = b.byte + static_cast< std::uint32_t >( ai.size() );
         const std::uint32_t r = rid< Rule >();
         bool result = true;
         if constexpr( Bool ) {
            result = !W.veto( g_rules[ r ].namehash, b.byte, e );
         }
         log_action( Ev::A_APPLY, r, FAM, b, e, span_hash( ai, b ), sid_of( st... ), result );
         maybe_fault( SITE_ACTION, ai );
         if constexpr( Bool ) {
            return result;
         }
      }
   };

   template< typename Rule, int FAM, bool Bool >
   struct act_apply0
   {
      static constexpr int family = FAM;

      template< typename... St >
      static auto apply0( St&&... st ) -> std::conditional_t< Bool, bool, void >
      {
         const std::uint32_t r = rid< Rule >();
         bool result = true;
         if constexpr( Bool ) {
            result = !W.veto( g_rules[ r ].namehash, 0xffffu, W.last_end );
         }
         Snap s;
         s.flags = F_NOPOS;
         log_action( Ev::A_APPLY0, r, FAM, s, W.last_end, 0, sid_of( st... ), result );
         std::uint32_t id = 0;
         const std::uint8_t c = W.fault_at( SITE_ACTION, id );
         if( c != EXC_NONE ) {
            {
               Suspend sp;
               log_fault( SITE_ACTION, c, id, s );
            }
            if( c == EXC_PE ) {
               Suspend sp;
               throw pegtl::parse_error( "sim#" + std::to_string( id ), pegtl::position( 0, 1, 1, "apply0" ) );
            }
            throw_simple( c, id );
         }
         if constexpr( Bool ) {
            return result;
         }
      }
   };

   template< typename Rule, int FAM >
   struct act_kind< Rule, 1, FAM > : act_apply< Rule, FAM, false >
   {};
   template< typename Rule, int FAM >
   struct act_kind< Rule, 2, FAM > : act_apply< Rule, FAM, true >
   {};
   template< typename Rule, int FAM >
   struct act_kind< Rule, 3, FAM > : act_apply0< Rule, FAM, false >
   {};
   template< typename Rule, int FAM >
   struct act_kind< Rule, 4, FAM > : act_apply0< Rule, FAM, true >
   {};

   // which kind of action a rule carries in each family; specialised in grammar.hpp
   template< typename Rule >
   inline constexpr int action_kind_1 = 0;
   template< typename Rule >
   inline constexpr int action_kind_2 = 0;

   template< typename Rule >
   struct sim_action
      : act_kind< Rule, action_kind_1< Rule >, 1 >
   {};

   template< typename Rule >
   struct act2
      : act_kind< Rule, action_kind_2< Rule >, 2 >
   {};

   // action classes for apply<>, apply0<>, if_apply<>
   template< int ID >
   struct xact
   {
      template< typename AI, typename... St >
      static void apply( const AI& ai, St&&... st )
      {
         const Snap b = action_snap( ai );
         log_action( Ev::X_APPLY, ID, 0, b, b.byte + static_cast< std::uint32_t >( ai.size() ), span_hash( ai, b ), sid_of( st... ), true );
         maybe_fault( SITE_ACTION, ai );
      }
   };

   template< int ID >
   struct xact_bool
   {
      template< typename AI, typename... St >
      static bool apply( const AI& ai, St&&... st )
      {
         const Snap b = action_snap( ai );
         const std::uint32_t e = b.byte + static_cast< std::uint32_t >( ai.size() );
         const bool result = !W.veto( 0x1234u + ID, b.byte, e );
         log_action( Ev::X_APPLY, ID, 0, b, e, span_hash( ai, b ), sid_of( st... ), result );
         maybe_fault( SITE_ACTION, ai );
         return result;
      }
   };

   template< int ID >
   struct xact0
   {
      template< typename... St >
      static void apply0( St&&... st )
      {
         Snap s;
         s.flags = F_NOPOS;
         log_action( Ev::X_APPLY, ID, 0, s, W.last_end, 0, sid_of( st... ), true );
      }
   };

   // ------------------------------------------------------------ inputs
   void soft_violation( std::uint32_t what, std::uint64_t value, const Snap& s );

   using mem_eol = pegtl::eol::lf_crlf;

   template< pegtl::tracking_mode P >
   class sim_mem
      : public pegtl::input_with_depth< pegtl::memory_input< P, mem_eol, std::string > >
   {
   public:
      using base_t = pegtl::input_with_depth< pegtl::memory_input< P, mem_eol, std::string > >;

      sim_mem( const char* b, const char* e )
         : base_t( b, e, "sim" )
      {}

      [[nodiscard]] char peek_char( const std::size_t offset = 0 ) const noexcept
      {
         if( offset >= this->size() ) {
            soft_violation( 1, offset, snap( *this ) );
            return 0;
         }
         return base_t::peek_char( offset );
      }

      [[nodiscard]] std::uint8_t peek_uint8( const std::size_t offset = 0 ) const noexcept
      {
         return static_cast< std::uint8_t >( peek_char( offset ) );
      }

      void bump( std::size_t n = 1 ) noexcept
      {
         base_t::bump( clamp( n, 2 ) );
      }
      void bump_in_this_line( std::size_t n = 1 ) noexcept
      {
         base_t::bump_in_this_line( clamp( n, 3 ) );
      }
      void bump_to_next_line( std::size_t n = 1 ) noexcept
      {
         base_t::bump_to_next_line( clamp( n, 4 ) );
      }

      void private_set_end( const char* new_end ) noexcept
      {
         // bytes at and beyond a lowered end are outside the window until it is restored
         const char* real_end = W.arena + W.xlen;
         const Snap s = snap( *this );
         log_event( Ev::SET_END, 0, 0, 0, 0, s, 0, static_cast< std::uint64_t >( new_end - W.arena ) );
         if( new_end >= W.arena && new_end <= real_end ) {
            W.mem_end_off = static_cast< std::size_t >( new_end - W.arena );
            SIM_UNPOISON( W.arena, W.xlen );
            if( new_end < real_end ) {
               SIM_POISON( new_end, static_cast< std::size_t >( real_end - new_end ) );
            }
         }
         else {
            soft_violation( 5, static_cast< std::uint64_t >( new_end - W.arena ), s );
         }
         base_t::private_set_end( new_end );
      }

   private:
      std::size_t clamp( std::size_t n, std::uint32_t what ) const noexcept
      {
         const std::size_t sz = this->size();
         if( n > sz ) {
            soft_violation( what, n, snap( *this ) );
            return sz;
         }
         return n;
      }
   };

   template< pegtl::tracking_mode P >
   inline constexpr int input_kind< sim_mem< P > > = 1;

   // reader for the simulated stream: delivers what the plan says
   struct BufCtx
   {
      char* base = nullptr;
      std::size_t capacity = 0;
      std::size_t shifted = 0;  // total bytes by which discard() moved the data (absolute offset = ptr - base + shifted)
      const char* end = nullptr;  // end of the delivered, not yet discarded data
   };
   extern BufCtx g_buf;

   std::size_t sim_read( char* buffer, std::size_t length );  // may throw sim_io_error

   struct sim_reader
   {
      std::size_t operator()( char* buffer, const std::size_t length ) const
      {
         return sim_read( buffer, length );
      }
   };

   template< std::size_t Chunk >
   class sim_buf
      : public pegtl::input_with_depth< pegtl::buffer_input< sim_reader, mem_eol, std::string, Chunk > >
   {
   public:
      using base_t = pegtl::input_with_depth< pegtl::buffer_input< sim_reader, mem_eol, std::string, Chunk > >;

      explicit sim_buf( const std::size_t maximum )
         : base_t( "sim", maximum )
      {
         g_buf.base = const_cast< char* >( this->current() );
         g_buf.capacity = this->buffer_capacity();
         g_buf.shifted = 0;
         g_buf.end = g_buf.base;
         SIM_POISON( g_buf.base, g_buf.capacity );
      }

      ~sim_buf()
      {
         SIM_UNPOISON( g_buf.base, g_buf.capacity );
         g_buf.base = nullptr;
      }

      void sim_snap( Snap& s ) const
      {
         s.byte = static_cast< std::uint32_t >( this->byte() );
         s.line = static_cast< std::uint32_t >( this->line() );
         s.col = static_cast< std::uint32_t >( this->column() );
         s.pos = static_cast< std::uint32_t >( ( this->current() - g_buf.base ) + g_buf.shifted );
         s.endoff = static_cast< std::uint32_t >( s.pos + this->buffer_occupied() );
      }

      [[nodiscard]] bool empty()
      {
         note_require( 1 );
         return base_t::empty();
      }

      [[nodiscard]] std::size_t size( const std::size_t amount )
      {
         note_require( amount );
         return base_t::size( amount );
      }

      [[nodiscard]] const char* end( const std::size_t amount )
      {
         note_require( amount );
         return base_t::end( amount );
      }

      void require( const std::size_t amount )
      {
         note_require( amount );
         base_t::require( amount );
      }

      [[nodiscard]] char peek_char( const std::size_t offset = 0 ) const noexcept
      {
         if( offset >= available() ) {
            soft_violation( 1, offset, snap( *this ) );
            return 0;
         }
         return base_t::peek_char( offset );
      }

      [[nodiscard]] std::uint8_t peek_uint8( const std::size_t offset = 0 ) const noexcept
      {
         return static_cast< std::uint8_t >( peek_char( offset ) );
      }

      void bump( std::size_t n = 1 ) noexcept
      {
         base_t::bump( clamp( n, 2 ) );
      }
      void bump_in_this_line( std::size_t n = 1 ) noexcept
      {
         base_t::bump_in_this_line( clamp( n, 3 ) );
      }
      void bump_to_next_line( std::size_t n = 1 ) noexcept
      {
         base_t::bump_to_next_line( clamp( n, 4 ) );
      }

      void discard() noexcept
      {
         // the harness keeps its own account of which buffer bytes are delivered and not yet discarded data
         // ( [ current, g_buf.end ) ); it does not take the input's word for it
         const char* old_cur = this->current();
         const std::size_t occ = available();
         const char* old_end = old_cur + occ;
         base_t::discard();
         const bool moved = ( this->current() != old_cur );
         if( moved ) {
            g_buf.shifted += static_cast< std::size_t >( old_cur - this->current() );
            const char* new_end = this->current() + occ;  // the unconsumed bytes, moved to the front
            if( new_end < old_end ) {
               SIM_POISON( new_end, static_cast< std::size_t >( old_end - new_end ) );
            }
            g_buf.end = new_end;
         }
         log_event( Ev::DISCARD, 0, 0, 0, 0, snap( *this ), 0, occ, moved ? 1 : 0 );
      }

   private:
      void note_require( const std::size_t amount )
      {
         log_event( Ev::REQUIRE, 0, 0, 0, 0, snap( *this ), 0, amount );
      }

      [[nodiscard]] std::size_t available() const noexcept
      {
         const char* c = this->current();
         return ( g_buf.end != nullptr && g_buf.end >= c ) ? static_cast< std::size_t >( g_buf.end - c ) : 0;
      }

      std::size_t clamp( std::size_t n, std::uint32_t what ) const noexcept
      {
         const std::size_t sz = available();
         if( n > sz ) {
            soft_violation( what, n, snap( *this ) );
            return sz;
         }
         return n;
      }
   };

   template< std::size_t Chunk >
   inline constexpr int input_kind< sim_buf< Chunk > > = 2;

}  // namespace sim
