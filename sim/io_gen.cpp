// Inputs for the fixed grammars of the I/O jobs: valid documents, mutations, page-size paddings.
#include <cstdio>

#include "io.hpp"
#include "prng.hpp"

namespace sim
{
   namespace
   {
      void json_value( Rng& r, int depth, std::string& o )
      {
         const unsigned k = r.below( depth >= 3 ? 5 : 8 );
         switch( k ) {
            case 0:
               o += r.chance( 1, 2 ) ? "true" : ( r.chance( 1, 2 ) ? "false" : "null" );
               break;
            case 1: {
               static const char* nums[] = { "0", "-1", "12", "3.25", "1e9", "-0.5E-2", "100" };
               o += nums[ r.below( 7 ) ];
               break;
            }
            case 2:
            case 3: {
               static const char* strs[] = { "\"\"", "\"a\"", "\"k\\n\"", "\"\\u00e9\"", "\"\xc3\xa9\"", "\"\\ud83d\\ude00\"", "\"x y\"", "\"\xe2\x82\xac\"" };
               o += strs[ r.below( 8 ) ];
               break;
            }
            case 4:
               o += "[]";
               break;
            case 5:
            case 6: {
               o += "[";
               const unsigned n = r.range( 1, 3 );
               for( unsigned i = 0; i < n; ++i ) {
                  if( i ) {
                     o += r.chance( 1, 2 ) ? "," : " , ";
                  }
                  json_value( r, depth + 1, o );
               }
               o += "]";
               break;
            }
            default: {
               o += "{";
               const unsigned n = r.range( 0, 3 );
               for( unsigned i = 0; i < n; ++i ) {
                  if( i ) {
                     o += ",";
                  }
                  o += r.chance( 1, 2 ) ? "\"k\":" : " \"key\" : ";
                  json_value( r, depth + 1, o );
               }
               o += "}";
               break;
            }
         }
      }

      std::string lines_doc( Rng& r )
      {
         static const char* ls[] = {
            "let x = 1, 2,3", "let y=42", "let s = \"a\\\"b\xc3\xa9\"", "let r = [==[ raw ]] ]==]", "let r2 = [[\nab]]", "#! comment line",
            "::abc", "::a\nb", "let o = ononon", "let o = on", "", "   ", "let z = 7 , 8", "let bad = ", "let q = \"unterminated", "let w = [=[ never closed", "::ab", "let t = 1,2 x", "let = 3"
         };
         std::string o;
         const unsigned n = r.range( 1, 6 );
         for( unsigned i = 0; i < n; ++i ) {
            o += ls[ r.below( r.chance( 4, 5 ) ? 13 : 19 ) ];
            if( i + 1 < n || r.chance( 2, 3 ) ) {
               o += r.chance( 1, 3 ) ? "\r\n" : ( r.chance( 1, 6 ) ? "\r" : "\n" );
            }
         }
         return o;
      }
   }  // namespace

   std::string gen_io_input( std::uint64_t seed, int prog, int io_class )
   {
      Rng r( seed );
      std::string s;
      if( prog == 1 ) {
         if( r.chance( 1, 4 ) ) {
            s += r.chance( 1, 2 ) ? " " : "\n\t";
         }
         json_value( r, 0, s );
         if( r.chance( 1, 4 ) ) {
            s += r.chance( 1, 2 ) ? "\n" : "  ";
         }
      }
      else if( prog == 2 ) {
         s = lines_doc( r );
      }
      else if( prog == 3 ) {
         static const char* ts[] = { "u12;", "u0;", "u01;", "u007;", "m99;", "m999;", "m1000;", "m0;", "m00;", "n7;", "n01;", "x100;", "x1000;", "x0", "u18446744073709551615;", "u18446744073709551616;", " ", "l5;", "l1000;", "l01;", "u;", "m", "n9", "x12" };
         for( unsigned i = r.range( 1, 6 ); i > 0; --i ) {
            s += ts[ r.below( sizeof( ts ) / sizeof( ts[ 0 ] ) ) ];
         }
      }
      else if( prog == 4 ) {
         static const char* ts[] = { "s-12;", "s+7;", "s0;", "s-0;", "s-01;", "s+01;", "s9223372036854775807;", "s9223372036854775808;", "s-9223372036854775808;", "s-9223372036854775809;", "t-5;", "t-05;", "t+;", "l-3;", "l-3!;", "l;", " ", "s-", "t12", "s--1;" };
         for( unsigned i = r.range( 1, 6 ); i > 0; --i ) {
            s += ts[ r.below( sizeof( ts ) / sizeof( ts[ 0 ] ) ) ];
         }
      }
      else if( prog == 5 ) {
         static const char* data[] = { "Wiki", "pedia", "x", "", "0123456789abcdef", "\r\n", "a;b=c" };
         for( unsigned i = r.range( 0, 3 ); i > 0; --i ) {
            const std::string d = data[ r.below( 7 ) ];
            if( d.empty() ) {
               continue;
            }
            char hex[ 32 ];
            std::snprintf( hex, sizeof( hex ), r.chance( 1, 4 ) ? "%zX" : "%zx", r.chance( 1, 8 ) ? d.size() + 1 : d.size() );
            s += hex;
            if( r.chance( 1, 3 ) ) {
               s += r.chance( 1, 2 ) ? ";ext=1" : ";q=\"v\"";
            }
            s += "\r\n" + d + "\r\n";
         }
         s += r.chance( 1, 4 ) ? "00" : "0";
         s += "\r\n";
         if( r.chance( 1, 3 ) ) {
            s += "X-Trailer: v\r\n";
         }
         s += "\r\n";
      }
      else if( prog == 7 ) {
         static const char* ts[] = { "(de)", "(dx)", "(x)", "(d", "#a", "#x", "#", "[b]", "[]", "[cc]", "[bc]", "[x]", "{b}", "{x}", "{", "<c>", "<x>", "?b", "?x", " ", "(de)(de)" };
         for( unsigned i = r.range( 1, 5 ); i > 0; --i ) {
            s += ts[ r.below( sizeof( ts ) / sizeof( ts[ 0 ] ) ) ];
         }
      }
      else if( prog == 11 ) {
         static const char* ts[] = { "<ab.cd>", "<ab!1>", "<ab!x>", "<!>", "<>", "#<ab>", "#<a!x.>", "#<.!>", "?<ab!x>", "?<ab>", "$<a!x>", "$<ab1>", "^<x!y>", "^<xy>", "ab", " ", "<ab", "<a<b>", "#<ab1>", "<a1>" };
         for( unsigned i = r.range( 1, 5 ); i > 0; --i ) {
            s += ts[ r.below( sizeof( ts ) / sizeof( ts[ 0 ] ) ) ];
         }
      }
      else if( prog == 8 ) {
         static const char* bodies[] = { "ab", "12", "a1.b", "!", "..", "x9!y", "", "ab?12", "ab?x", "?7", "a.?", "7a7", "ab#", "#", "1.#x" };
         static const char* open[] = { "(", "[", "{", "<", "|", "/", "@", "$(", "$[", "$/", "~" };
         static const char* close[] = { ")", "]", "}", ">", "|", "/", "@", ")", "]", "/", "~" };
         for( unsigned i = r.range( 1, 5 ); i > 0; --i ) {
            const unsigned k = r.below( 11 );
            const std::string b = bodies[ r.below( 15 ) ];
            s += open[ k ];
            if( k == 6 ) {
               // @ at<body> [ @ disable<body> ] body @
               if( r.chance( 1, 2 ) ) {
                  s += "@" + b;
               }
               s += b;
            }
            else {
               s += b;
            }
            s += r.chance( 7, 8 ) ? close[ k ] : "";
            if( r.chance( 1, 5 ) ) {
               s += " ";
            }
         }
      }
      else if( prog == 6 ) {
         static const char* ts[] = { "%ab", "%ab%cd", "%ab%", "%ab~cd", "%ab~c.", "%ab%cd~ef", "%", "+ab", "+ab+cd", "+ab+", "+", "(ab)", "[cd]", "{ef}", "{ef.g}", "<gh>", "!ij", "!kl?", " ", "(a", "[x", "{y", "<z", "()", "[]", "(ab]", "!", "{q.}" };
         for( unsigned i = r.range( 1, 6 ); i > 0; --i ) {
            s += ts[ r.below( sizeof( ts ) / sizeof( ts[ 0 ] ) ) ];
         }
      }
      // mutations
      if( r.chance( 2, 5 ) ) {
         unsigned muts = r.range( 1, 2 );
         while( muts-- > 0 ) {
            switch( r.below( 5 ) ) {
               case 0:
                  if( !s.empty() ) {
                     s.resize( r.below( static_cast< std::uint32_t >( s.size() ) ) );
                  }
                  break;
               case 1:
                  if( !s.empty() ) {
                     s.erase( r.below( static_cast< std::uint32_t >( s.size() ) ), 1 );
                  }
                  break;
               case 2:
                  if( !s.empty() ) {
                     s[ r.below( static_cast< std::uint32_t >( s.size() ) ) ] = static_cast< char >( r.below( 256 ) );
                  }
                  break;
               case 3: {
                  static const char* ins[] = { "\"", "\\", "[", "]", "{", ",", "\r", "\xe2\x82", "\xf0\x9f", "1", "e", "-" };
                  s.insert( r.below( static_cast< std::uint32_t >( s.size() + 1 ) ), ins[ r.below( 12 ) ] );
                  break;
               }
               default:
                  s += static_cast< char >( r.below( 256 ) );
                  break;
            }
         }
      }
      // page-size boundaries (mapped files): pad with insignificant whitespace up to 0/1/4095/4096/4097/8192 bytes
      const bool file_class = ( io_class == IO_MMAP || io_class == IO_FILE || io_class == IO_READ || io_class == IO_READ_FP );
      if( prog <= IO_PROGS && ( file_class ? r.chance( 1, 14 ) : r.chance( 1, 100 ) ) ) {
         static const std::size_t targets[] = { 0, 1, 4095, 4096, 4096, 4097, 8192 };
         const std::size_t t = targets[ r.below( r.chance( 1, 6 ) ? 7 : 6 ) ];
         if( t < s.size() ) {
            if( t <= 1 ) {
               s.resize( t );
            }
         }
         else {
            const std::size_t pad = t - s.size();
            if( prog == 1 ) {
               s.insert( r.chance( 1, 2 ) ? 0 : s.size(), std::string( pad, r.chance( 1, 2 ) ? ' ' : '\n' ) );
            }
            else {
               // blank lines in front; keeps every line short enough for the stream buffer
               std::string p;
               while( p.size() + 2 <= pad ) {
                  p += " \n";
               }
               p.append( pad - p.size(), '\n' );
               s.insert( 0, p );
            }
         }
      }
      if( io_class == IO_ARGV ) {
         for( auto& ch : s ) {
            if( ch == '\0' ) {
               ch = ' ';
            }
         }
      }
      return s;
   }

}  // namespace sim
