// Oracles: invariants over one recorded history, and equality between configurations.
#pragma once

#include <cstdint>
#include <string>
#include <vector>

#include "case.hpp"

namespace sim
{
   struct Violation
   {
      std::string oracle;  // e.g. "C02.restore"
      std::string key;     // stable signature (rule / site) used by the known-findings file and by shrinking
      std::string detail;  // human readable
      std::size_t event = 0;
   };

   // reach measures collected while judging a run
   struct Features
   {
      std::uint32_t invocations = 0;      // ENTER events
      std::uint32_t faults = 0;           // faults that fired
      std::uint32_t caught_rf = 0;        // exceptions converted to local failure
      std::uint32_t nested = 0;           // exceptions converted by *_raise_nested
      std::uint32_t reached_caller = 0;   // exception at the caller of parse()
      std::uint32_t natural_raise = 0;    // RAISE events
      std::uint32_t local_fail_consumed = 0;  // required-mode failures whose attempt had moved the cursor
      std::uint32_t lookahead = 0;        // at / not_at invocations that consumed inside
      std::uint32_t vetoes = 0;           // bool actions returning false
      std::uint32_t unwinds = 0;
      std::uint32_t state_scopes = 0;
      std::uint32_t state_scopes_failed = 0;  // scopes left by failure or exception
      std::uint32_t switches = 0;         // action / control family switches entered
      std::uint32_t byte_limits = 0, byte_limits_offset = 0;  // limit_bytes scopes (at offset > 0)
      std::uint32_t depth_limits = 0, depth_raise = 0;
      std::uint32_t sub_inputs = 0;       // events on rematch sub-inputs
      std::uint32_t reads = 0, short_reads = 0, discards_moved = 0, discards_noop = 0;
      std::uint32_t refill_in_rule = 0;   // reader calls while a non-top rule invocation was open below an atom-level rule
      std::uint32_t big_require = 0;      // REQUIRE amounts larger than the chunk
      std::uint32_t overflow = 0;
      std::uint32_t alloc_faults = 0;
      std::uint32_t fault_ctx = 0;        // bitmask-ish context id of the first fault (site, innermost catcher class, depth bucket)
      bool nontrivial = false;
   };

   void check_history( const Case& c, SetId set, const RunResult& r, std::vector< Violation >& out, Features& f );
   void check_equal( const Case& c, SetId ref_set, const RunResult& ref, SetId alt_set, const RunResult& alt, unsigned chunk, std::vector< Violation >& out, Features& f );
   void check_tree( const Case& c, const RunResult& r, std::vector< Violation >& out, Features& f );
   void check_coverage( const Case& c, const RunResult& r, std::vector< Violation >& out, Features& f );
   // C18: guarded run vs. the same case with every limit wrapper replaced by a plain wrapper
   void check_unguarded( const Case& c, const RunResult& guarded, const RunResult& plain, std::vector< Violation >& out );

   // C07.iofault: an I/O error of a stock file / stream input surfaces as the documented exception
   void check_iofault( const Case& c, const RunResult& alt, std::vector< Violation >& out, Features& f );

   std::string dump_history( const RunResult& r, std::size_t max_events = 400 );

}  // namespace sim
