// Deterministic PRNG for the simulator: splitmix64 seeding, xoshiro256**.
// No std:: distributions (their output is implementation defined).
#pragma once
#include <cstdint>
#include <cstddef>

namespace sim
{
   inline std::uint64_t splitmix64( std::uint64_t& x ) noexcept
   {
      std::uint64_t z = ( x += 0x9e3779b97f4a7c15ULL );
      z = ( z ^ ( z >> 30 ) ) * 0xbf58476d1ce4e5b9ULL;
      z = ( z ^ ( z >> 27 ) ) * 0x94d049bb133111ebULL;
      return z ^ ( z >> 31 );
   }

   inline std::uint64_t mix64( std::uint64_t a, std::uint64_t b ) noexcept
   {
      std::uint64_t x = a ^ ( b * 0x9e3779b97f4a7c15ULL ) ^ 0x2545f4914f6cdd1dULL;
      std::uint64_t r = splitmix64( x );
      r ^= splitmix64( x );
      return r;
   }

   struct Rng
   {
      std::uint64_t s[ 4 ];

      explicit Rng( std::uint64_t seed = 0 ) noexcept
      {
         reseed( seed );
      }

      void reseed( std::uint64_t seed ) noexcept
      {
         std::uint64_t x = seed;
         for( auto& v : s ) {
            v = splitmix64( x );
         }
      }

      static std::uint64_t rotl( std::uint64_t x, int k ) noexcept
      {
         return ( x << k ) | ( x >> ( 64 - k ) );
      }

      std::uint64_t next() noexcept
      {
         const std::uint64_t result = rotl( s[ 1 ] * 5, 7 ) * 9;
         const std::uint64_t t = s[ 1 ] << 17;
         s[ 2 ] ^= s[ 0 ];
         s[ 3 ] ^= s[ 1 ];
         s[ 1 ] ^= s[ 2 ];
         s[ 0 ] ^= s[ 3 ];
         s[ 2 ] ^= t;
         s[ 3 ] = rotl( s[ 3 ], 45 );
         return result;
      }

      // uniform in [0, n), n >= 1 (modulo bias is irrelevant for n << 2^64)
      std::uint32_t below( std::uint32_t n ) noexcept
      {
         return n <= 1 ? 0 : static_cast< std::uint32_t >( next() % n );
      }

      // inclusive range
      std::uint32_t range( std::uint32_t lo, std::uint32_t hi ) noexcept
      {
         return lo + below( hi - lo + 1 );
      }

      bool chance( std::uint32_t num, std::uint32_t den ) noexcept
      {
         return below( den ) < num;
      }
   };

   inline std::uint64_t fnv1a( const void* p, std::size_t n, std::uint64_t h = 0xcbf29ce484222325ULL ) noexcept
   {
      const auto* c = static_cast< const unsigned char* >( p );
      for( std::size_t i = 0; i < n; ++i ) {
         h ^= c[ i ];
         h *= 0x100000001b3ULL;
      }
      return h;
   }

   inline std::uint64_t hash_u64( std::uint64_t h, std::uint64_t v ) noexcept
   {
      return fnv1a( &v, sizeof( v ), h );
   }

}  // namespace sim
