#include "gen.hpp"

#include <cstdio>
#include <sstream>

#include "optable.hpp"

namespace sim
{
   namespace
   {
      constexpr int TOTAL = NODES + MINIS;

      struct Sem
      {
         bool null = false;
         std::uint16_t left = 0;
      };

      std::uint16_t bit( int n )
      {
         return static_cast< std::uint16_t >( 1u << n );
      }

      struct Analysis
      {
         bool null[ TOTAL ] = {};
         std::uint16_t left[ TOTAL ] = {};
      };

      // sequence semantics over ids
      Sem seq_sem( const Analysis& a, std::initializer_list< int > ids )
      {
         Sem s;
         s.null = true;
         for( int id : ids ) {
            if( s.null ) {
               s.left |= bit( id );
            }
            s.null = s.null && a.null[ id ];
         }
         return s;
      }

      Sem main_sem( const Analysis& an, const NodeRow& r )
      {
         const int a = r.kid[ 0 ] % NODES, b = r.kid[ 1 ] % NODES, c = r.kid[ 2 ] % NODES;
         const int m0 = NODES + r.kid[ 0 ] % MINIS;
         const bool na = an.null[ a ], nb = an.null[ b ], nc = an.null[ c ];
         Sem s;
         switch( r.op ) {
            case OP_ATOM:
               s.null = atom_meta[ r.atom % N_ATOMS ].nullable;
               break;
            case OP_SEQ2:
            case OP_D_SEQ_CS:
               return seq_sem( an, { a, b } );
            case OP_SEQ3:
               return seq_sem( an, { a, b, c } );
            case OP_SOR2:
            case OP_D_SOR_CSS:
               s.null = na || nb;
               s.left = bit( a ) | bit( b );
               break;
            case OP_SOR3:
               s.null = na || nb || nc;
               s.left = bit( a ) | bit( b ) | bit( c );
               break;
            case OP_STAR:
            case OP_OPT:
            case OP_AT:
            case OP_NOT_AT:
            case OP_REP_MAX:
            case OP_REP_OPT:
            case OP_D_STAR_EA:
            case OP_D_OPT_DA:
            case OP_D_AT_EA:
               s.null = true;
               s.left = bit( a );
               break;
            case OP_PLUS:
            case OP_REP_MIN:
            case OP_REP2:
            case OP_REP_MIN_MAX:
            case OP_UNTIL1:
            case OP_MUST:
            case OP_ENABLE:
            case OP_DISABLE:
            case OP_TC_RF:
            case OP_TC_ANY_RF:
            case OP_TC_STD_RF:
            case OP_TC_TYPE_RF:
            case OP_TC_RN:
            case OP_TC_ANY_RN:
            case OP_TC_STD_RN:
            case OP_TC_TYPE_RN:
            case OP_STATE:
            case OP_W_CS:
            case OP_W_CSS:
            case OP_W_EA:
            case OP_W_DA:
            case OP_W_LB1:
            case OP_W_LB3:
            case OP_W_LD1:
            case OP_W_LD2:
            case OP_W_CB2:
            case OP_W_ID:
            case OP_IF_APPLY:
            case OP_MINUS:
            case OP_REMATCH:
            case OP_REMATCH2:
            case OP_D_MUST_CS:
            case OP_D_ENABLE_DA:
            case OP_D_DISABLE_EA:
            case OP_D_STATE_CSS:
            case OP_D_TC_CS:
            case OP_D_PLUS_CS:
            case OP_MUST_MSG:
            case OP_TC_RN_MSG:
            case OP_TC_ANY_RN_MSG:
            case OP_TC_STD_RN_MSG:
            case OP_TC_TYPE_RN_MSG:
               s.null = na;
               s.left = bit( a );
               break;
            case OP_UNTIL2:
            case OP_D_UNTIL_EA:
               s.null = na;
               s.left = bit( a ) | bit( b );
               break;
            case OP_LIST:
            case OP_LIST_MUST:
            case OP_LIST_TAIL:
               s.null = na;
               s.left = bit( a ) | ( na ? bit( b ) : 0 );
               break;
            case OP_LIST_PAD:
            case OP_LIST_TAIL_PAD:
               s.null = na;
               s.left = bit( a ) | ( na ? ( bit( b ) | bit( c ) ) : 0 );
               break;
            case OP_PAD:
               s.null = na;
               s.left = bit( a ) | bit( b );
               break;
            case OP_PAD2:
               s.null = na;
               s.left = bit( a ) | bit( b ) | ( na ? bit( c ) : 0 );
               break;
            case OP_PAD_OPT:
               s.null = true;
               s.left = bit( a ) | bit( b );
               break;
            case OP_IF_THEN_ELSE:
            case OP_IF_MUST_ELSE:
            case OP_D_ITE_DA:
               s.null = ( na && nb ) || nc;
               s.left = bit( a ) | bit( c ) | ( na ? bit( b ) : 0 );
               break;
            case OP_IF_MUST:
            case OP_TC_RF2:
            case OP_TC_STD_RF2:
            case OP_TC_TYPE_RF2:
            case OP_TC_RN2:
            case OP_TC_TYPE_RN2:
               return seq_sem( an, { a, b } );
            case OP_T_SOR_BT:
            case OP_T_SOR_TC:
               s = seq_sem( an, { a, b } );
               s.null = true;
               break;
            case OP_OPT_MUST:
            case OP_STAR_MUST:
            case OP_STRICT:
            case OP_STAR_STRICT:
            case OP_STAR_PARTIAL:
            case OP_PARTIAL:
               s = seq_sem( an, { a, b } );
               s.null = true;
               break;
            // variadic forms: the unary semantics over seq< kids... >
            case OP_STAR2:
            case OP_OPT2:
            case OP_AT2:
            case OP_NOT_AT2:
            case OP_REP_MAX2:
            case OP_REP_OPT2:
               s = seq_sem( an, { a, b } );
               s.null = true;
               break;
            case OP_PLUS2:
            case OP_MUST2:
            case OP_REP2_2:
            case OP_REP_MIN_MAX2:
            case OP_REP_MIN2:
            case OP_STATE2:
            case OP_ENABLE2:
            case OP_DISABLE2:
            case OP_TC_ANY_RF2:
            case OP_TC_ANY_RN2:
            case OP_TC_STD_RN2:
               return seq_sem( an, { a, b } );
            case OP_UNTIL3: {
               // until< C, R1, R2 >: C | ( R1 R2 ) ... C
               const Sem body = seq_sem( an, { b, c } );
               s.null = na;
               s.left = bit( a ) | body.left;
               break;
            }
            case OP_IF_MUST3:
               return seq_sem( an, { a, b, c } );
            case OP_OPT_MUST3:
            case OP_STAR_MUST3:
            case OP_STRICT3:
            case OP_STAR_PARTIAL3:
               s = seq_sem( an, { a, b, c } );
               s.null = true;
               break;
            case OP_PARTIAL3:
               s = seq_sem( an, { a, b, c } );
               s.null = true;
               break;
            case OP_RAW:
               s.null = false;
               s.left = 0;
               break;
            case OP_MINI:
               s.null = an.null[ m0 ];
               s.left = bit( m0 );
               break;
            default:
               s.null = true;
               s.left = bit( a ) | bit( b ) | bit( c );
               break;
         }
         return s;
      }

      Sem mini_sem( const Analysis& an, const NodeRow& r )
      {
         const int a = NODES + r.kid[ 0 ] % MINIS, b = NODES + r.kid[ 1 ] % MINIS;
         Sem s;
         switch( r.op ) {
            case MOP_ATOM:
               s.null = matom_meta[ r.atom % N_MATOMS ].nullable;
               break;
            case MOP_SEQ2:
               return seq_sem( an, { a, b } );
            case MOP_SOR2:
               s.null = an.null[ a ] || an.null[ b ];
               s.left = bit( a ) | bit( b );
               break;
            case MOP_STAR:
            case MOP_OPT:
            case MOP_AT:
            case MOP_NOT_AT:
               s.null = true;
               s.left = bit( a );
               break;
            default:
               s.null = an.null[ a ];
               s.left = bit( a );
               break;
         }
         return s;
      }

      // loop / progress requirements of one row, evaluated after the fixed point
      bool row_ok( const Analysis& an, const NodeRow& r, std::string* why )
      {
         const int a = r.kid[ 0 ] % NODES, b = r.kid[ 1 ] % NODES, c = r.kid[ 2 ] % NODES;
         const bool na = an.null[ a ], nb = an.null[ b ], nc = an.null[ c ];
         bool ok = true;
         switch( r.op ) {
            case OP_STAR:
            case OP_PLUS:
            case OP_REP_MIN:
            case OP_RAW:
            case OP_D_STAR_EA:
            case OP_D_PLUS_CS:
               ok = !na;
               break;
            case OP_UNTIL2:
            case OP_D_UNTIL_EA:
               ok = !nb;
               break;
            case OP_LIST:
            case OP_LIST_MUST:
            case OP_LIST_TAIL:
            case OP_STAR_MUST:
            case OP_STAR_STRICT:
            case OP_STAR_PARTIAL:
            case OP_T_SOR_BT:
            case OP_T_SOR_TC:
               ok = !( na && nb );
               break;
            case OP_LIST_PAD:
            case OP_LIST_TAIL_PAD:
               ok = !nc && !( na && nb );
               break;
            case OP_PAD:
            case OP_PAD_OPT:
               ok = !nb;
               break;
            case OP_PAD2:
               ok = !nb && !nc;
               break;
            case OP_STAR2:
            case OP_PLUS2:
            case OP_REP_MIN2:
               ok = !( na && nb );
               break;
            case OP_UNTIL3:
               ok = !( nb && nc );
               break;
            case OP_STAR_MUST3:
            case OP_STAR_PARTIAL3:
               ok = !( na && nb && nc );
               break;
            default:
               break;
         }
         if( !ok && why ) {
            *why = std::string( "nullable loop body in " ) + op_name( r.op );
         }
         return ok;
      }

      bool mini_row_ok( const Analysis& an, const NodeRow& r )
      {
         if( r.op == MOP_STAR ) {
            return !an.null[ NODES + r.kid[ 0 ] % MINIS ];
         }
         return true;
      }

      std::uint16_t successors( const Grammar& g, int n )
      {
         std::uint16_t s = 0;
         if( n < NODES ) {
            const NodeRow& r = g.n[ n ];
            const int ar = op_meta[ r.op % N_OPS ].arity;
            for( int k = 0; k < ar; ++k ) {
               const bool is_mini = ( r.op == OP_MINI && k == 0 ) || ( ( r.op == OP_MINUS || r.op == OP_REMATCH || r.op == OP_REMATCH2 ) && k >= 1 );
               s |= is_mini ? bit( NODES + r.kid[ k ] % MINIS ) : bit( r.kid[ k ] % NODES );
            }
         }
         else {
            const NodeRow& r = g.m[ n - NODES ];
            const int ar = mop_meta[ r.op % N_MOPS ].arity;
            for( int k = 0; k < ar; ++k ) {
               s |= bit( NODES + r.kid[ k ] % MINIS );
            }
         }
         return s;
      }
   }  // namespace

   bool well_formed( const Grammar& g, int shape, std::string* why )
   {
      Analysis an;
      for( int iter = 0; iter < 64; ++iter ) {
         bool changed = false;
         for( int n = 0; n < TOTAL; ++n ) {
            const Sem s = ( n < NODES ) ? main_sem( an, g.n[ n ] ) : mini_sem( an, g.m[ n - NODES ] );
            if( s.null && !an.null[ n ] ) {
               an.null[ n ] = true;
               changed = true;
            }
            if( ( s.left | an.left[ n ] ) != an.left[ n ] ) {
               an.left[ n ] |= s.left;
               changed = true;
            }
         }
         if( !changed ) {
            break;
         }
      }
      // reachable nodes
      std::uint16_t reach = bit( 0 );
      if( shape == 4 ) {
         reach |= bit( 1 ) | bit( 2 );
      }
      for( int iter = 0; iter < TOTAL; ++iter ) {
         std::uint16_t nr = reach;
         for( int n = 0; n < TOTAL; ++n ) {
            if( reach & bit( n ) ) {
               nr |= successors( g, n );
            }
         }
         if( nr == reach ) {
            break;
         }
         reach = nr;
      }
      // transitive closure of left
      std::uint16_t clos[ TOTAL ];
      for( int n = 0; n < TOTAL; ++n ) {
         clos[ n ] = an.left[ n ];
      }
      for( int iter = 0; iter < TOTAL; ++iter ) {
         for( int n = 0; n < TOTAL; ++n ) {
            std::uint16_t c = clos[ n ];
            for( int k = 0; k < TOTAL; ++k ) {
               if( clos[ n ] & bit( k ) ) {
                  c |= clos[ k ];
               }
            }
            clos[ n ] = c;
         }
      }
      for( int n = 0; n < TOTAL; ++n ) {
         if( !( reach & bit( n ) ) ) {
            continue;
         }
         if( clos[ n ] & bit( n ) ) {
            if( why ) {
               *why = "left recursion through node " + std::to_string( n );
            }
            return false;
         }
         if( n < NODES ) {
            if( !row_ok( an, g.n[ n ], why ) ) {
               return false;
            }
         }
         else if( !mini_row_ok( an, g.m[ n - NODES ] ) ) {
            if( why ) {
               *why = "nullable loop body in mini";
            }
            return false;
         }
      }
      if( ( shape == 2 || shape == 3 || shape == 5 ) && an.null[ 0 ] ) {
         if( why ) {
            *why = "top-level loop over nullable node 0";
         }
         return false;
      }
      return true;
   }

   // ------------------------------------------------------------ generation
   namespace
   {
      const std::uint8_t grp_consume[] = { OP_STAR2, OP_PLUS2, OP_OPT2, OP_AT2, OP_NOT_AT2, OP_UNTIL3, OP_REP2_2, OP_REP_MIN_MAX2, OP_REP_MAX2, OP_REP_MIN2, OP_REP_OPT2, OP_STRICT3, OP_PARTIAL3, OP_STAR_PARTIAL3, OP_SEQ2, OP_SEQ3, OP_SOR2, OP_SOR3, OP_UNTIL1, OP_UNTIL2, OP_REP2, OP_REP_MIN_MAX, OP_REP_MIN, OP_IF_THEN_ELSE, OP_STRICT, OP_STAR_STRICT, OP_REMATCH, OP_REMATCH2, OP_MINUS, OP_IF_APPLY, OP_RAW, OP_TC_RF, OP_TC_ANY_RF, OP_LIST, OP_PAD, OP_AT, OP_NOT_AT };
      const std::uint8_t grp_exc[] = { OP_MUST2, OP_IF_MUST3, OP_OPT_MUST3, OP_STAR_MUST3, OP_TC_ANY_RF2, OP_TC_ANY_RN2, OP_TC_STD_RN2, OP_MUST_MSG, OP_TC_RN_MSG, OP_TC_ANY_RN_MSG, OP_TC_STD_RN_MSG, OP_TC_TYPE_RN_MSG, OP_D_TC_CS, OP_D_MUST_CS, OP_D_SEQ_CS, OP_TC_RF2, OP_TC_STD_RF2, OP_TC_TYPE_RF2, OP_TC_RN2, OP_TC_TYPE_RN2, OP_MUST, OP_IF_MUST, OP_IF_MUST_ELSE, OP_OPT_MUST, OP_STAR_MUST, OP_LIST_MUST, OP_TC_RF, OP_TC_ANY_RF, OP_TC_STD_RF, OP_TC_TYPE_RF, OP_TC_RN, OP_TC_ANY_RN, OP_TC_STD_RN, OP_TC_TYPE_RN, OP_SEQ2, OP_SOR2, OP_STAR, OP_OPT, OP_AT, OP_W_CB2, OP_IF_APPLY };
      const std::uint8_t grp_state[] = { OP_STATE2, OP_ENABLE2, OP_DISABLE2, OP_AT2, OP_D_SEQ_CS, OP_D_SOR_CSS, OP_D_STAR_EA, OP_D_OPT_DA, OP_D_MUST_CS, OP_D_ENABLE_DA, OP_D_DISABLE_EA, OP_D_STATE_CSS, OP_D_TC_CS, OP_D_AT_EA, OP_D_ITE_DA, OP_D_PLUS_CS, OP_D_UNTIL_EA, OP_STATE, OP_W_CS, OP_W_CSS, OP_W_EA, OP_W_DA, OP_ENABLE, OP_DISABLE, OP_AT, OP_NOT_AT, OP_MINI, OP_SEQ2, OP_SOR2, OP_STAR, OP_OPT, OP_TC_ANY_RF, OP_MUST };
      const std::uint8_t grp_limits[] = { OP_W_LB1, OP_W_LB3, OP_W_LD1, OP_W_LD2, OP_W_CB2, OP_SEQ2, OP_SEQ3, OP_SOR2, OP_STAR, OP_OPT, OP_AT, OP_NOT_AT, OP_TC_RF, OP_TC_ANY_RF, OP_PLUS, OP_UNTIL1 };
      const std::uint8_t grp_stream[] = { OP_SEQ2, OP_SEQ3, OP_SOR2, OP_STAR, OP_PLUS, OP_UNTIL1, OP_UNTIL2, OP_LIST, OP_PAD, OP_RAW, OP_REMATCH, OP_MINUS, OP_AT, OP_NOT_AT, OP_REP_MIN_MAX, OP_IF_THEN_ELSE };
      const std::uint8_t grp_tree[] = { OP_STAR2, OP_OPT2, OP_PLUS2, OP_MUST2, OP_TC_ANY_RF2, OP_UNTIL3, OP_T_SOR_BT, OP_T_SOR_TC, OP_SEQ2, OP_SOR2, OP_STAR, OP_OPT, OP_PLUS, OP_AT, OP_NOT_AT, OP_TC_ANY_RF, OP_TC_RF, OP_MUST, OP_LIST, OP_MINI, OP_IF_THEN_ELSE, OP_UNTIL2 };

      const std::uint8_t atoms_consume[] = { ATOM_PRED_OR_UTF8, ATOM_MASK16_ONE, ATOM_MASK32_STRING, ATOM_MASK64_NOT_ONE, ATOM_UINT16_LE_RANGES, ATOM_REP_STRING, ATOM_SEPARATED_SEQ, ATOM_IF_THEN_CHAIN, ATOM_SHEBANG, ATOM_ELLIPSIS, ATOM_UTF8_STRING, ATOM_UTF16_BE_STRING, ATOM_UTF32_LE_NOT_ONE, ATOM_JSON_VALUE, ATOM_URI, ATOM_URI_REFERENCE, ATOM_IPV6, ATOM_REL_JSON_POINTER, ATOM_IRI, ATOM_ABNF_CRLF_WSP, ATOM_HTTP_FIELD, ATOM_HTTP_REQUEST_LINE, ATOM_UTF16_BE_ANY, ATOM_UTF16_LE_RANGE, ATOM_UTF32_BE_ANY, ATOM_UINT64_ANY, ATOM_ISTR_ABC, ATOM_UNSIGNED, ATOM_SIGNED, ATOM_MAXIMUM, ATOM_RAW0, ATOM_STR_ABC, ATOM_KEYWORD_AB, ATOM_REP_ONE, ATOM_UTF8_ANY, ATOM_UINT16_ANY, ATOM_UINT32_ONE, ATOM_BYTES3, ATOM_LIST_DIGITS, ATOM_NAMED_DIGITS, ATOM_THREE_A, ATOM_IDENTIFIER, ATOM_EOL, ATOM_STR_CRLF, ATOM_DEEP9 };
      const std::uint8_t atoms_exc[] = { ATOM_JSON_VALUE, ATOM_HTTP_REQUEST_LINE, ATOM_DEEP10_BT, ATOM_DEEP9, ATOM_RAISE, ATOM_RAISE_MSG, ATOM_NAMED_AB, ATOM_NAMED_C, ATOM_NAMED_DIGITS, ATOM_APPLY, ATOM_ONE_A, ATOM_ANY, ATOM_STR_AB, ATOM_DEEP7 };

      template< std::size_t N >
      bool in_group( const std::uint8_t ( &g )[ N ], int v )
      {
         for( auto x : g ) {
            if( x == v ) {
               return true;
            }
         }
         return false;
      }

      bool op_in_focus( Focus f, int op )
      {
         switch( f ) {
            case FOCUS_CONSUME: return in_group( grp_consume, op );
            case FOCUS_EXC: return in_group( grp_exc, op );
            case FOCUS_STATE: return in_group( grp_state, op );
            case FOCUS_LIMITS: return in_group( grp_limits, op );
            case FOCUS_STREAM: return in_group( grp_stream, op );
            case FOCUS_TREE: return in_group( grp_tree, op );
            default: return false;
         }
      }

      bool atom_in_focus( Focus f, int a )
      {
         switch( f ) {
            case FOCUS_CONSUME:
            case FOCUS_STREAM: return in_group( atoms_consume, a );
            case FOCUS_EXC:
            case FOCUS_TREE: return in_group( atoms_exc, a );
            default: return false;
         }
      }

      const char* const tokens[] = { "ab", "abc", "a", "b", "c", "aa", "aaa", "bb", "0", "1", "9", "12", "01", "-01", "+7", "99", "100", "256", ",", " ", "\t", "\n", "\r\n", "\r", "[[", "[=[", "[==[", "]]", "]=]", "]==]", "=", "-", "+", "\"", "_", "AB", "Ab", "\xc3\xa9", "\xc3", "\xe2\x82\xac", "\xe2\x82", "\xf0\x9f\x98\x80", "\xef\xbb\xbf", "\xff", "\x80", "aaaa", "x", "ab ab", "a,b", "1,2, 3", "\xd8\x01\xdc\x37", "\xd8\x01\xdc", "\xd8\x01", "\x01\xd8\x37\xdc", "\x01\xd8\x37", "\x01\x41", "\x01\x01\xf6\x01", "\xdb\xff\xdf", "ABc", "aB" };
      constexpr unsigned N_TOKENS = sizeof( tokens ) / sizeof( tokens[ 0 ] );

      std::string gen_input( Rng& r, const GenParams& p )
      {
         std::string s;
         unsigned target;
         const unsigned m = r.below( 10 );
         if( m < 1 ) {
            target = 0;
         }
         else if( m < 6 ) {
            target = r.range( 1, 10 );
         }
         else {
            target = r.range( 4, p.max_input );
         }
         // per-case token subset keeps inputs "about" something
         unsigned subset[ 10 ];
         const unsigned ns = r.range( 2, 10 );
         for( unsigned i = 0; i < ns; ++i ) {
            subset[ i ] = r.below( N_TOKENS );
         }
         while( s.size() < target ) {
            if( r.chance( 1, 12 ) ) {
               s += static_cast< char >( r.below( 256 ) );
            }
            else if( r.chance( 1, 40 ) ) {
               s += '\0';
            }
            else {
               s += tokens[ subset[ r.below( ns ) ] ];
            }
         }
         if( s.size() > p.max_input ) {
            s.resize( p.max_input );
         }
         return s;
      }

      // sample strings an atom accepts (first) and near misses (rest)
      const char* atom_sample( Rng& r, int a )
      {
         switch( a ) {
            case ATOM_ONE_A: return "a";
            case ATOM_ONE_B: return "b";
            case ATOM_ONE_ABC: return r.chance( 1, 2 ) ? "c" : "a";
            case ATOM_NOT_ONE_A: return "b";
            case ATOM_RANGE_AC: return "b";
            case ATOM_RANGES: return r.chance( 1, 2 ) ? "5" : "c";
            case ATOM_NOT_RANGE: return "9";
            case ATOM_ANY: return r.chance( 1, 3 ) ? "\n" : "x";
            case ATOM_EOL: return r.chance( 1, 2 ) ? "\r\n" : "\n";
            case ATOM_EOLF: return r.chance( 1, 2 ) ? "\n" : "";
            case ATOM_BYTES2: return "xy";
            case ATOM_BYTES3: return "x\ny";
            case ATOM_STR_AB: return "ab";
            case ATOM_STR_ABC: return "abc";
            case ATOM_STR_CRLF: return "\r\n";
            case ATOM_ISTR_AB: return r.chance( 1, 2 ) ? "Ab" : "aB";
            case ATOM_KEYWORD_AB: return "ab";
            case ATOM_IDENTIFIER: return r.chance( 1, 2 ) ? "ab_1" : "_";
            case ATOM_EVERYTHING: return "tail";
            case ATOM_UTF8_ANY: return r.chance( 1, 2 ) ? "\xe2\x82\xac" : "\xf0\x9f\x98\x80";
            case ATOM_UTF8_ONE: return "\xc3\xa9";
            case ATOM_UTF8_RANGE: return r.chance( 1, 2 ) ? "\xc3\xa9" : "\xe2\x82\xac";
            case ATOM_UTF8_BOM: return "\xef\xbb\xbf";
            case ATOM_UINT8_ANY: return "\xff";
            case ATOM_UINT16_ANY: return "\x01\x02";
            case ATOM_UINT32_ONE: return "aaaa";
            case ATOM_UTF16_BE_ANY: return r.chance( 1, 2 ) ? "\xd8\x01\xdc\x37" : ( r.chance( 1, 2 ) ? "\x01\x41" : "\xd8\x01\xdc" );
            case ATOM_UTF16_LE_RANGE: return r.chance( 1, 2 ) ? "\x01\xd8\x37\xdc" : ( r.chance( 1, 2 ) ? "\x41\x01" : "\x01\xd8\x37" );
            case ATOM_UTF32_BE_ANY: return r.chance( 1, 2 ) ? "\x01\x01\xf6\x01" : "\x01\x01\xf6";
            case ATOM_UINT64_ANY: return r.chance( 1, 2 ) ? "12345678" : "1234567";
            case ATOM_ISTR_ABC: return r.chance( 1, 2 ) ? "aBc" : "AB";
            case ATOM_REP_ONE: return r.chance( 1, 2 ) ? "aa" : "a";
            case ATOM_UNSIGNED: return r.chance( 1, 3 ) ? "0" : ( r.chance( 1, 2 ) ? "42" : "01" );
            case ATOM_SIGNED: return r.chance( 1, 3 ) ? "-7" : ( r.chance( 1, 2 ) ? "+12" : "-01" );
            case ATOM_MAXIMUM: return r.chance( 1, 3 ) ? "12" : ( r.chance( 1, 2 ) ? "99" : "100" );
            case ATOM_RAW0: return r.chance( 1, 2 ) ? "[=[x]]y]=]" : ( r.chance( 1, 2 ) ? "[[\nab]]" : ( r.chance( 1, 2 ) ? "[==[x]=" : "[===[]" ) );
            case ATOM_DIGIT: return "7";
            case ATOM_ALPHA: return "q";
            case ATOM_SPACE: return r.chance( 1, 2 ) ? " " : "\n";
            case ATOM_BLANK: return r.chance( 1, 2 ) ? " " : "\t";
            case ATOM_XDIGIT: return "f";
            case ATOM_TWO_B: return "bb";
            case ATOM_THREE_A: return "aaa";
            case ATOM_NUL: return "";
            case ATOM_ONE_LF: return "\n";
            case ATOM_ONE_CR: return "\r";
            case ATOM_NOT_ONE_LF: return "z";
            case ATOM_ONE_OPEN: return "[";
            case ATOM_ONE_CLOSE: return "]";
            case ATOM_ONE_EQ: return "=";
            case ATOM_NAMED_AB: return "ab";
            case ATOM_NAMED_DIGITS: return r.chance( 1, 2 ) ? "123" : "4";
            case ATOM_NAMED_C: return "c";
            case ATOM_NAMED_WS: return r.chance( 1, 2 ) ? " \n" : "";
            case ATOM_DEEP7: return r.chance( 1, 2 ) ? "bab" : "c";
            case ATOM_DEEP9: return r.chance( 1, 2 ) ? "bcab0" : "c";
            case ATOM_DEEP10_BT: return r.chance( 1, 2 ) ? "bcaa" : ( r.chance( 1, 2 ) ? "a!" : "ca0" );
            case ATOM_LIST_DIGITS: return r.chance( 1, 2 ) ? "1, 22 ,3" : "5";
            case ATOM_PRED_AND: return r.chance( 1, 2 ) ? "q" : "b";
            case ATOM_PRED_NOT: return r.chance( 1, 2 ) ? "x" : "7";
            case ATOM_PRED_OR_UTF8: return r.chance( 1, 3 ) ? "\xc3\xa9" : ( r.chance( 1, 2 ) ? "\xe4\xb8\xad" : ( r.chance( 1, 2 ) ? "\xf0\x9f\x98\x80" : "\xf0\x9f\x98" ) );
            case ATOM_MASK8_RANGE: return r.chance( 1, 2 ) ? "\xe2" : "b";
            case ATOM_MASK16_ONE: return r.chance( 1, 2 ) ? "Xa" : "a";
            case ATOM_MASK32_STRING: return r.chance( 1, 2 ) ? "\x01" "abc" "\x02" "def" : ( r.chance( 1, 2 ) ? "Xabc" "Yde" : "Xabc" );
            case ATOM_MASK64_NOT_ONE: return r.chance( 1, 2 ) ? "b1234567" : ( r.chance( 1, 2 ) ? "a1234567" : "b123456" );
            case ATOM_UINT16_LE_RANGES: return r.chance( 1, 2 ) ? "bc" : ( r.chance( 1, 2 ) ? "00" : "b" );
            case ATOM_REP_STRING: return r.chance( 1, 2 ) ? "abab" : "aba";
            case ATOM_SEPARATED_SEQ: return r.chance( 1, 2 ) ? "1,a,2" : ( r.chance( 1, 2 ) ? "1,a," : "1,a" );
            case ATOM_IF_THEN_CHAIN: return r.chance( 1, 3 ) ? "ab" : ( r.chance( 1, 2 ) ? "c7" : ( r.chance( 1, 2 ) ? "z" : "a" ) );
            case ATOM_SHEBANG: return r.chance( 1, 2 ) ? "#!/bin/sh\n" : ( r.chance( 1, 2 ) ? "#!x" : "#!" );
            case ATOM_ELLIPSIS: return r.chance( 1, 2 ) ? "..." : "..";
            case ATOM_UTF8_STRING: return r.chance( 1, 2 ) ? "\xc3\xa9\xe2\x82\xac\xf0\x9f\x98\x80" : ( r.chance( 1, 2 ) ? "\xc3\xa9\xe2\x82\xac\xf0\x9f\x98" : "\xc3\xa9\xe2\x82" );
            case ATOM_UTF8_NOT_RANGE: return r.chance( 1, 2 ) ? "\xe2\x82\xac" : ( r.chance( 1, 2 ) ? "x" : "\xc3\xa9" );
            case ATOM_UTF8_RANGES: return r.chance( 1, 3 ) ? "\xce\xb2" : ( r.chance( 1, 2 ) ? "\xf0\x9f\x98\x80" : "k" );
            case ATOM_UTF16_BE_STRING: return r.chance( 1, 2 ) ? "\x01\x61\xd8\x3d\xde\x01" : "\x01\x61\xd8\x3d\xde";
            case ATOM_UTF32_LE_NOT_ONE: return r.chance( 1, 2 ) ? "\x62\x01\x01\x01" : "\x62\x01\x01";
            case ATOM_JSON_VALUE: {
               static const char* v[] = { "[1,\"a\"]", "{\"k\":[true,null]}", "\"\\u00e9\xc3\xa9\"", "-1.5e3", "[1,", "{\"k\" 1}", "\"\xf0\x9f\x98", "[[[]]]", "tru", "{\"a\":{\"b\":\"c\"}}" };
               return v[ r.below( 10 ) ];
            }
            case ATOM_URI: {
               static const char* v[] = { "http://a.b/c?d#e", "x:", "ftp://u:p@[::1]:21/", "urn:a:b", "h://1.2.3.4:5", "http://[1:2:3:4:5:6:7:8]", "http://[::ffff:1.2.3.4]/%41", "h://%4", "http://[v1.a]/", "a+b-c.d://h" };
               return v[ r.below( 10 ) ];
            }
            case ATOM_URI_REFERENCE: {
               static const char* v[] = { "//a/b", "/a/b", "a/b?c", "?q", "#f", "", "../x;y=1", "http://h", "%zz" };
               return v[ r.below( 9 ) ];
            }
            case ATOM_IPV6: {
               static const char* v[] = { "::", "::1", "1::", "1:2:3:4:5:6:7:8", "1:2:3:4:5:6:1.2.3.4", "1::8", "::ffff:255.255.255.255", "1:2::7:8", "1:2:3:4:5:6:7", "fe80::1:2:3:4:5" };
               return v[ r.below( 10 ) ];
            }
            case ATOM_JSON_POINTER: return r.chance( 1, 2 ) ? "/a~0b/~1/c" : ( r.chance( 1, 2 ) ? "/a~2" : "/" );
            case ATOM_REL_JSON_POINTER: return r.chance( 1, 3 ) ? "0#" : ( r.chance( 1, 2 ) ? "12/a/b" : ( r.chance( 1, 2 ) ? "1" : "01#" ) );
            case ATOM_IRI: {
               static const char* v[] = { "http://\xc3\xa9.b/\xe4\xb8\xad?q=\xee\x80\x80#f", "x:\xc3\xa9", "h://[::1]/\xf0\x90\x80\x80", "h://a/\xf0\x9f\x98", "a:b" };
               return v[ r.below( 5 ) ];
            }
            case ATOM_ABNF_CRLF_WSP: return r.chance( 1, 2 ) ? "\r\n \r\n\t " : ( r.chance( 1, 2 ) ? "\r\n\t" : "\r\n" );
            case ATOM_HTTP_FIELD: return r.chance( 1, 2 ) ? "Host: a.b \t" : ( r.chance( 1, 2 ) ? "X-Y:v w" : "K:" );
            case ATOM_HTTP_REQUEST_LINE: return r.chance( 1, 2 ) ? "GET /a?b HTTP/1.1\r\n" : ( r.chance( 1, 2 ) ? "GET / HTTP/1.1" : "OPTIONS * HTTP/1.0\r\n" );
            default: return "";
         }
      }

      const char* matom_sample( int a )
      {
         switch( a ) {
            case MATOM_ONE_A: return "a";
            case MATOM_ONE_B: return "b";
            case MATOM_ANY: return "x";
            case MATOM_STR_AB: return "ab";
            case MATOM_DIGIT: return "3";
            default: return "";
         }
      }

      // grammar-directed input: walk the table and emit text the rules are likely to accept
      struct Deriver
      {
         Rng& r;
         const Grammar& g;
         std::string out;
         unsigned budget = 64;

         unsigned reps( unsigned lo, unsigned hi )
         {
            return r.range( lo, hi );
         }

         void mini( int j, int depth )
         {
            if( depth > 10 || out.size() > budget ) {
               return;
            }
            const NodeRow& row = g.m[ j % MINIS ];
            const int a = row.kid[ 0 ] % MINIS, b = row.kid[ 1 ] % MINIS;
            switch( row.op ) {
               case MOP_ATOM:
                  out += matom_sample( row.atom );
                  break;
               case MOP_SEQ2:
                  mini( a, depth + 1 );
                  mini( b, depth + 1 );
                  break;
               case MOP_SOR2:
                  mini( r.chance( 1, 2 ) ? a : b, depth + 1 );
                  break;
               case MOP_STAR:
                  for( unsigned i = reps( 0, 2 ); i > 0; --i ) {
                     mini( a, depth + 1 );
                  }
                  break;
               case MOP_OPT:
                  if( r.chance( 1, 2 ) ) {
                     mini( a, depth + 1 );
                  }
                  break;
               case MOP_AT:
               case MOP_NOT_AT:
                  break;
               default:
                  mini( a, depth + 1 );
                  break;
            }
         }

         void node( int n, int depth )
         {
            if( depth > 12 || out.size() > budget ) {
               return;
            }
            const NodeRow& row = g.n[ n % NODES ];
            const int a = row.kid[ 0 ] % NODES, b = row.kid[ 1 ] % NODES, c = row.kid[ 2 ] % NODES;
            const int d = depth + 1;
            switch( row.op ) {
               case OP_ATOM:
                  if( row.atom == ATOM_NUL ) {
                     out += '\0';
                  }
                  else {
                     out += atom_sample( r, row.atom );
                  }
                  break;
               case OP_SEQ2:
               case OP_IF_MUST:
               case OP_TC_RF2:
               case OP_TC_STD_RF2:
               case OP_TC_TYPE_RF2:
               case OP_TC_RN2:
                  case OP_TC_TYPE_RN2:
               case OP_D_SEQ_CS:
                  node( a, d );
                  node( b, d );
                  break;
               case OP_SEQ3:
                  node( a, d );
                  node( b, d );
                  node( c, d );
                  break;
               case OP_SOR2:
               case OP_D_SOR_CSS:
                  node( r.chance( 1, 2 ) ? a : b, d );
                  break;
               case OP_SOR3: {
                  const unsigned k = r.below( 3 );
                  node( k == 0 ? a : ( k == 1 ? b : c ), d );
                  break;
               }
               case OP_STAR:
               case OP_REP_MAX:
               case OP_REP_OPT:
               case OP_D_STAR_EA:
                  for( unsigned i = reps( 0, 2 ); i > 0; --i ) {
                     node( a, d );
                  }
                  break;
               case OP_PLUS:
               case OP_REP_MIN:
               case OP_REP_MIN_MAX:
               case OP_D_PLUS_CS:
                  for( unsigned i = reps( 1, 3 ); i > 0; --i ) {
                     node( a, d );
                  }
                  break;
               case OP_REP2:
                  node( a, d );
                  node( a, d );
                  break;
               case OP_OPT:
               case OP_D_OPT_DA:
                  if( r.chance( 2, 3 ) ) {
                     node( a, d );
                  }
                  break;
               case OP_AT:
               case OP_D_AT_EA:
                  if( r.chance( 1, 3 ) ) {
                     node( a, d );
                  }
                  break;
               case OP_NOT_AT:
                  break;
               case OP_UNTIL1:
                  for( unsigned i = reps( 0, 3 ); i > 0; --i ) {
                     out += "x";
                  }
                  node( a, d );
                  break;
               case OP_UNTIL2:
               case OP_D_UNTIL_EA:
                  for( unsigned i = reps( 0, 2 ); i > 0; --i ) {
                     node( b, d );
                  }
                  node( a, d );
                  break;
               case OP_LIST:
               case OP_LIST_MUST:
               case OP_LIST_TAIL:
                  node( a, d );
                  for( unsigned i = reps( 0, 2 ); i > 0; --i ) {
                     node( b, d );
                     node( a, d );
                  }
                  if( row.op == OP_LIST_TAIL && r.chance( 1, 2 ) ) {
                     node( b, d );
                  }
                  break;
               case OP_LIST_PAD:
               case OP_LIST_TAIL_PAD:
                  node( a, d );
                  for( unsigned i = reps( 0, 2 ); i > 0; --i ) {
                     if( r.chance( 1, 2 ) ) {
                        node( c, d );
                     }
                     node( b, d );
                     if( r.chance( 1, 2 ) ) {
                        node( c, d );
                     }
                     node( a, d );
                  }
                  break;
               case OP_PAD:
                  if( r.chance( 1, 2 ) ) {
                     node( b, d );
                  }
                  node( a, d );
                  if( r.chance( 1, 2 ) ) {
                     node( b, d );
                  }
                  break;
               case OP_PAD2:
                  if( r.chance( 1, 2 ) ) {
                     node( b, d );
                  }
                  node( a, d );
                  if( r.chance( 1, 2 ) ) {
                     node( c, d );
                  }
                  break;
               case OP_PAD_OPT:
                  if( r.chance( 1, 2 ) ) {
                     node( b, d );
                  }
                  if( r.chance( 2, 3 ) ) {
                     node( a, d );
                  }
                  break;
               case OP_IF_THEN_ELSE:
               case OP_IF_MUST_ELSE:
               case OP_D_ITE_DA:
                  if( r.chance( 1, 2 ) ) {
                     node( a, d );
                     node( b, d );
                  }
                  else {
                     node( c, d );
                  }
                  break;
               case OP_OPT_MUST:
               case OP_STRICT:
                  if( r.chance( 2, 3 ) ) {
                     node( a, d );
                     node( b, d );
                  }
                  break;
               case OP_STAR_MUST:
               case OP_STAR_STRICT:
               case OP_STAR_PARTIAL:
                  for( unsigned i = reps( 0, 2 ); i > 0; --i ) {
                     node( a, d );
                     node( b, d );
                  }
                  if( row.op != OP_STAR_MUST && r.chance( 1, 3 ) ) {
                     node( a, d );
                  }
                  break;
               case OP_PARTIAL:
                  node( a, d );
                  if( r.chance( 1, 2 ) ) {
                     node( b, d );
                  }
                  break;
               case OP_T_SOR_BT:
               case OP_T_SOR_TC:
                  for( unsigned i = reps( 0, 2 ); i > 0; --i ) {
                     node( a, d );
                     node( b, d );
                  }
                  if( r.chance( 2, 3 ) ) {
                     out += r.chance( 1, 2 ) ? "x" : ( r.chance( 1, 2 ) ? "y" : "z" );
                  }
                  break;
               case OP_STAR2:
               case OP_REP_MAX2:
               case OP_REP_OPT2:
                  for( unsigned i = reps( 0, 2 ); i > 0; --i ) {
                     node( a, d );
                     node( b, d );
                  }
                  break;
               case OP_PLUS2:
               case OP_REP_MIN2:
               case OP_REP_MIN_MAX2:
                  for( unsigned i = reps( 1, 2 ); i > 0; --i ) {
                     node( a, d );
                     node( b, d );
                  }
                  break;
               case OP_REP2_2:
                  node( a, d );
                  node( b, d );
                  node( a, d );
                  node( b, d );
                  break;
               case OP_OPT2:
                  if( r.chance( 2, 3 ) ) {
                     node( a, d );
                     node( b, d );
                  }
                  break;
               case OP_AT2:
                  if( r.chance( 1, 3 ) ) {
                     node( a, d );
                     node( b, d );
                  }
                  break;
               case OP_NOT_AT2:
                  if( r.chance( 1, 3 ) ) {
                     node( a, d );
                  }
                  break;
               case OP_MUST2:
               case OP_STATE2:
               case OP_ENABLE2:
               case OP_DISABLE2:
               case OP_TC_ANY_RF2:
               case OP_TC_ANY_RN2:
               case OP_TC_STD_RN2:
                  node( a, d );
                  if( r.chance( 5, 6 ) ) {
                     node( b, d );
                  }
                  break;
               case OP_UNTIL3:
                  for( unsigned i = reps( 0, 2 ); i > 0; --i ) {
                     node( b, d );
                     node( c, d );
                  }
                  node( a, d );
                  break;
               case OP_IF_MUST3:
                  node( a, d );
                  node( b, d );
                  if( r.chance( 4, 5 ) ) {
                     node( c, d );
                  }
                  break;
               case OP_OPT_MUST3:
               case OP_STRICT3:
                  if( r.chance( 2, 3 ) ) {
                     node( a, d );
                     node( b, d );
                     node( c, d );
                  }
                  break;
               case OP_STAR_MUST3:
               case OP_STAR_PARTIAL3:
                  for( unsigned i = reps( 0, 2 ); i > 0; --i ) {
                     node( a, d );
                     node( b, d );
                     node( c, d );
                  }
                  if( row.op == OP_STAR_PARTIAL3 && r.chance( 1, 3 ) ) {
                     node( a, d );
                  }
                  break;
               case OP_PARTIAL3:
                  node( a, d );
                  if( r.chance( 2, 3 ) ) {
                     node( b, d );
                     if( r.chance( 1, 2 ) ) {
                        node( c, d );
                     }
                  }
                  break;
               case OP_RAW: {
                  const unsigned k = r.below( 3 );
                  out += "[";
                  out.append( k, '=' );
                  out += "[";
                  if( r.chance( 1, 3 ) ) {
                     out += "\n";
                  }
                  for( unsigned i = reps( 0, 3 ); i > 0; --i ) {
                     node( a, d );
                  }
                  if( r.chance( 3, 4 ) ) {
                     out += "]";
                     out.append( r.chance( 5, 6 ) ? k : k + 1, '=' );
                     out += "]";
                  }
                  else if( r.chance( 2, 3 ) ) {
                     out += "]";  // input may end inside the closing bracket
                     out.append( r.below( k + 1 ), '=' );
                  }
                  break;
               }
               case OP_MINI:
                  mini( row.kid[ 0 ], d );
                  break;
               default:
                  node( a, d );
                  break;
            }
         }
      };

      std::string derive_input( Rng& r, const Case& c, const GenParams& p )
      {
         Deriver dv{ r, c.g, std::string(), p.max_input };
         const unsigned tops = ( c.shape == 2 || c.shape == 3 || c.shape == 5 ) ? r.range( 1, 3 ) : 1;
         for( unsigned i = 0; i < tops; ++i ) {
            dv.node( 0, 0 );
         }
         if( c.shape == 4 ) {
            dv.node( 1, 0 );
            dv.node( 2, 0 );
         }
         std::string s = dv.out;
         // mutate
         unsigned muts = r.chance( 1, 2 ) ? 0 : r.range( 1, 2 );
         while( muts-- > 0 ) {
            switch( r.below( 6 ) ) {
               case 0:
                  if( !s.empty() ) {
                     s.resize( r.below( static_cast< std::uint32_t >( s.size() ) ) );
                  }
                  break;
               case 1:
                  if( !s.empty() ) {
                     s.erase( r.below( static_cast< std::uint32_t >( s.size() ) ), 1 );
                  }
                  break;
               case 2:
                  s.insert( r.below( static_cast< std::uint32_t >( s.size() + 1 ) ), tokens[ r.below( N_TOKENS ) ] );
                  break;
               case 3:
                  if( !s.empty() ) {
                     s[ r.below( static_cast< std::uint32_t >( s.size() ) ) ] = static_cast< char >( r.below( 256 ) );
                  }
                  break;
               case 4:
                  s += tokens[ r.below( N_TOKENS ) ];
                  break;
               default:
                  s += static_cast< char >( r.below( 256 ) );
                  break;
            }
         }
         if( s.size() > p.max_input ) {
            s.resize( p.max_input );
         }
         return s;
      }

      void gen_grammar( Rng& r, const GenParams& p, Grammar& g )
      {
         // swarm: enabled subsets and weights per case
         unsigned wop[ N_OPS ];
         unsigned total = 0;
         const unsigned p_en = 25 + r.below( 50 );
         for( int op = 0; op < N_OPS; ++op ) {
            wop[ op ] = 0;
            if( op == OP_ATOM || ( op_meta[ op ].caps & ~p.caps ) != 0 ) {
               continue;
            }
            const bool f = op_in_focus( p.focus, op );
            if( r.below( 100 ) < ( f ? 85u : p_en ) ) {
               wop[ op ] = ( f ? 3 : 1 ) * ( 1 + r.below( 4 ) );
            }
            total += wop[ op ];
         }
         if( total == 0 ) {
            wop[ OP_SEQ2 ] = 1;
            total = 1;
         }
         unsigned wat[ N_ATOMS ];
         unsigned atotal = 0;
         for( int a = 0; a < N_ATOMS; ++a ) {
            wat[ a ] = 0;
            if( ( atom_meta[ a ].caps & ~p.caps ) != 0 ) {
               continue;
            }
            const bool f = atom_in_focus( p.focus, a );
            if( r.below( 100 ) < ( f ? 70u : 35u ) ) {
               wat[ a ] = ( f ? 3 : 1 ) * ( 1 + r.below( 3 ) );
            }
            atotal += wat[ a ];
         }
         if( atotal == 0 ) {
            wat[ ATOM_ONE_A ] = 1;
            atotal = 1;
         }
         auto pick = []( Rng& rr, const unsigned* w, unsigned n, unsigned tot ) {
            unsigned x = rr.below( tot );
            for( unsigned i = 0; i < n; ++i ) {
               if( x < w[ i ] ) {
                  return i;
               }
               x -= w[ i ];
            }
            return 0u;
         };
         const unsigned atom_bias = 15 + r.below( 30 );
         for( int i = 0; i < NODES; ++i ) {
            NodeRow& row = g.n[ i ];
            row = NodeRow();
            row.atom = static_cast< std::uint8_t >( pick( r, wat, N_ATOMS, atotal ) );
            const unsigned pa = ( i == 0 ) ? 5 : atom_bias + 7 * i;
            if( r.below( 100 ) < pa ) {
               row.op = OP_ATOM;
            }
            else {
               row.op = static_cast< std::uint8_t >( pick( r, wop, N_OPS, total ) );
            }
            for( int k = 0; k < 3; ++k ) {
               if( i < NODES - 1 && r.below( 100 ) < 75 ) {
                  row.kid[ k ] = static_cast< std::uint8_t >( r.range( i + 1, NODES - 1 ) );
               }
               else {
                  row.kid[ k ] = static_cast< std::uint8_t >( r.below( NODES ) );
               }
            }
         }
         for( int j = 0; j < MINIS; ++j ) {
            NodeRow& row = g.m[ j ];
            row = NodeRow();
            row.atom = static_cast< std::uint8_t >( r.below( N_MATOMS ) );
            if( r.below( 100 ) < 30u + 25u * j ) {
               row.op = MOP_ATOM;
            }
            else {
               row.op = static_cast< std::uint8_t >( 1 + r.below( N_MOPS - 1 ) );
               if( p.focus == FOCUS_STATE && r.chance( 1, 2 ) ) {
                  const std::uint8_t sw[] = { MOP_CA, MOP_CC, MOP_ACTION, MOP_CONTROL, MOP_CAS, MOP_CASS, MOP_DISABLE, MOP_ENABLE, MOP_STATE, MOP_CONTROL_CS, MOP_CONTROL_DA, MOP_ACTION_CAS, MOP_ACTION_CASS, MOP_DISABLE_CA, MOP_STATE_CC };
                  row.op = sw[ r.below( sizeof( sw ) ) ];
               }
            }
            for( int k = 0; k < 3; ++k ) {
               if( j < MINIS - 1 && r.below( 100 ) < 75 ) {
                  row.kid[ k ] = static_cast< std::uint8_t >( r.range( j + 1, MINIS - 1 ) );
               }
               else {
                  row.kid[ k ] = static_cast< std::uint8_t >( r.below( MINIS ) );
               }
            }
         }
      }
   }  // namespace

   Case gen_case( std::uint64_t seed, const GenParams& p )
   {
      Rng r( seed );
      Case c;
      c.prog = 0;
      c.vetoseed = r.next();
      if( p.discard_shapes ) {
         c.shape = static_cast< std::uint8_t >( r.below( 6 ) );
      }
      else {
         c.shape = static_cast< std::uint8_t >( r.below( 2 ) );
      }
      c.topA = r.chance( 4, 5 ) ? 1 : 0;
      c.topM = r.chance( 1, 2 ) ? 1 : 0;
      if( c.shape >= 2 ) {
         c.topM = 0;  // discard is only safe without an enclosing rewind target
      }
      if( p.fixed_modes ) {
         c.topA = 1;
         c.topM = 0;
      }
      bool ok = false;
      for( int attempt = 0; attempt < 60; ++attempt ) {
         gen_grammar( r, p, c.g );
         if( well_formed( c.g, c.shape ) ) {
            ok = true;
            break;
         }
      }
      if( !ok ) {
         for( int i = 0; i < NODES; ++i ) {
            c.g.n[ i ] = NodeRow();
            c.g.n[ i ].op = OP_ATOM;
            c.g.n[ i ].atom = ATOM_ONE_A;
         }
         c.g.n[ 0 ].op = OP_PLUS;
         c.g.n[ 0 ].kid[ 0 ] = 1;
      }
      c.input = r.chance( 2, 3 ) ? derive_input( r, c, p ) : gen_input( r, p );
      if( p.max_faults > 0 && p.site_mask != 0 ) {
         const unsigned n = 1 + r.below( p.max_faults );
         for( unsigned i = 0; i < n; ++i ) {
            FaultOp f;
            unsigned s;
            do {
               s = r.below( N_SITES );
            } while( !( p.site_mask & ( 1u << s ) ) );
            f.site = static_cast< std::uint8_t >( s );
            const unsigned km = r.below( 10 );
            f.k = static_cast< std::uint16_t >( km < 6 ? r.range( 1, 4 ) : ( km < 9 ? r.range( 1, 12 ) : r.range( 1, 60 ) ) );
            if( s == SITE_READER ) {
               f.cls = EXC_IO;
            }
            else if( s == SITE_ALLOC ) {
               f.cls = EXC_BAD_ALLOC;
               f.k = static_cast< std::uint16_t >( r.range( 1, 10 ) );
            }
            else {
               const std::uint8_t cl[] = { EXC_FAULT, EXC_STD, EXC_PE, EXC_INT };
               f.cls = cl[ r.below( 4 ) ];
            }
            c.faults.push_back( f );
         }
      }
      c.maximum = 4096;
      return c;
   }

   void gen_stream_plan( std::uint64_t seed, Case& c, unsigned chunk )
   {
      Rng r( seed );
      const unsigned len = static_cast< unsigned >( c.input.size() );
      c.reads.clear();
      const unsigned mode = r.below( 6 );
      const unsigned n = 4 * len + 16;
      switch( mode ) {
         case 0:
            break;  // reader always fills the request
         case 1:
            c.reads.assign( n, 1 );
            break;
         case 2:
            for( unsigned i = 0; i < n; ++i ) {
               c.reads.push_back( static_cast< std::uint16_t >( r.range( 1, 3 ) ) );
            }
            break;
         case 3:
            for( unsigned i = 0; i < n; ++i ) {
               c.reads.push_back( static_cast< std::uint16_t >( r.range( 1, chunk + 2 ) ) );
            }
            break;
         case 4:
            for( unsigned i = 0; i < n; ++i ) {
               c.reads.push_back( static_cast< std::uint16_t >( r.chance( 1, 3 ) ? 1000 : r.range( 1, 2 ) ) );
            }
            break;
         default: {
            // a few short reads at the start, then full
            const unsigned k = r.range( 1, 6 );
            for( unsigned i = 0; i < k; ++i ) {
               c.reads.push_back( static_cast< std::uint16_t >( r.range( 1, 4 ) ) );
            }
            break;
         }
      }
      const unsigned mm = r.below( 10 );
      if( mm < 6 ) {
         c.maximum = len + 8 + r.below( 64 );
      }
      else if( mm < 8 ) {
         c.maximum = r.below( 9 );
      }
      else if( mm < 9 ) {
         c.maximum = len > 0 ? len - r.below( 2 ) : 0;
      }
      else {
         c.maximum = r.range( 1, len + 2 );
      }
   }

   // ------------------------------------------------------------ description
   namespace
   {
      void expr( const Grammar& g, int n, int depth, std::uint16_t onstack, std::ostringstream& o )
      {
         const bool is_mini = n >= NODES;
         const NodeRow& r = is_mini ? g.m[ n - NODES ] : g.n[ n ];
         o << ( is_mini ? "m" : "n" ) << ( is_mini ? n - NODES : n );
         if( ( onstack & bit( n ) ) || depth > 6 ) {
            return;
         }
         o << ":";
         if( is_mini ) {
            if( r.op == MOP_ATOM ) {
               o << matom_name( r.atom );
               return;
            }
            o << mop_name( r.op ) << "(";
            for( int k = 0; k < mop_meta[ r.op % N_MOPS ].arity; ++k ) {
               if( k ) {
                  o << ",";
               }
               expr( g, NODES + r.kid[ k ] % MINIS, depth + 1, onstack | bit( n ), o );
            }
            o << ")";
            return;
         }
         if( r.op == OP_ATOM ) {
            o << atom_name( r.atom );
            return;
         }
         o << op_name( r.op ) << "(";
         for( int k = 0; k < op_meta[ r.op % N_OPS ].arity; ++k ) {
            if( k ) {
               o << ",";
            }
            const bool mk = ( r.op == OP_MINI && k == 0 ) || ( ( r.op == OP_MINUS || r.op == OP_REMATCH || r.op == OP_REMATCH2 ) && k >= 1 );
            expr( g, mk ? NODES + r.kid[ k ] % MINIS : r.kid[ k ] % NODES, depth + 1, onstack | bit( n ), o );
         }
         o << ")";
      }
   }  // namespace

   std::string describe_case( const Case& c )
   {
      std::ostringstream o;
      o << "shape=" << int( c.shape ) << " A=" << int( c.topA ) << " M=" << int( c.topM ) << " grammar=";
      expr( c.g, 0, 0, 0, o );
      if( c.shape == 4 ) {
         o << " ; ";
         expr( c.g, 1, 0, 0, o );
         o << " ; ";
         expr( c.g, 2, 0, 0, o );
      }
      o << " input=\"";
      for( unsigned char ch : c.input ) {
         char b[ 8 ];
         if( ch >= 32 && ch < 127 && ch != '"' && ch != '\\' ) {
            o << ch;
         }
         else {
            std::snprintf( b, sizeof( b ), "\\x%02x", ch );
            o << b;
         }
      }
      o << "\"";
      if( !c.faults.empty() ) {
         o << " faults=[";
         for( const auto& f : c.faults ) {
            o << "site" << int( f.site ) << "#" << f.k << ":cls" << int( f.cls ) << " ";
         }
         o << "]";
      }
      if( !c.reads.empty() || c.maximum != 4096 ) {
         o << " maximum=" << c.maximum << " reads=[";
         for( std::size_t i = 0; i < c.reads.size() && i < 12; ++i ) {
            o << c.reads[ i ] << ( i + 1 < c.reads.size() ? "," : "" );
         }
         if( c.reads.size() > 12 ) {
            o << "...";
         }
         o << "]";
      }
      return o.str();
   }

}  // namespace sim
