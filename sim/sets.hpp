// Instantiation sets: ( input type, control, states ) under which the wired grammar is compiled.
// A translation unit is compiled with -DSIM_SET=<n>; every dispatcher's match<> is declared
// `extern template` here and defined in exactly one TU per set (unit.cpp).
#pragma once

#ifndef SIM_SET
#error "SIM_SET not defined"
#endif

// sets without rematch/minus (cost): lazy, tree, coverage
#if SIM_SET == 3 || SIM_SET == 4 || SIM_SET == 5 || SIM_SET == 9
#define SIM_SET_REMATCH 0
#else
#define SIM_SET_REMATCH 1
#endif

#if SIM_SET == 4 || SIM_SET == 9
#define SIM_SET_TREEOPS 1
#endif
#if SIM_SET == 5
#define SIM_SET_PRIVSTATE 0
#define SIM_COVERAGE_LAZY 1
#endif

#include "grammar.hpp"

#include <tao/pegtl/contrib/coverage.hpp>
#include <tao/pegtl/contrib/parse_tree.hpp>
#include <tao/pegtl/contrib/state_control.hpp>

#ifndef SIM_CHUNK
#define SIM_CHUNK 3
#endif

namespace sim
{
   using plain_mem = pegtl::memory_input< pegtl::tracking_mode::eager, mem_eol, std::string >;
   using tree_state = pegtl::parse_tree::internal::state< pegtl::parse_tree::node >;
   using cov_state = pegtl::internal::coverage_state;
}  // namespace sim

#if SIM_SET == 1
#define SET_NAME "S1"
#define SET_IN sim::sim_mem< tao::pegtl::tracking_mode::eager >
#define SET_CTL sim::sim_control
#define SET_ST sim::sim_state&
#define SET_PLAIN 1
#elif SIM_SET == 2
#define SET_NAME "S2"
#define SET_IN sim::sim_buf< SIM_CHUNK >
#define SET_CTL sim::sim_control
#define SET_ST sim::sim_state&
#define SET_PLAIN 1
#elif SIM_SET == 3
#define SET_NAME "S3"
#define SET_IN sim::sim_mem< tao::pegtl::tracking_mode::lazy >
#define SET_CTL sim::sim_control
#define SET_ST sim::sim_state&
#define SET_PLAIN 1
#elif SIM_SET == 4
// the parse tree over a control WITHOUT unwind(): what parse_tree::parse does by default (normal has none)
#define SET_NAME "S4"
#define SET_IN sim::sim_mem< tao::pegtl::tracking_mode::eager >
#define SET_CTL tao::pegtl::parse_tree::internal::make_control< tao::pegtl::parse_tree::node, sim::sim_selector, sim::ctl2 >::type
#define SET_TREE_BASE sim::ctl2
#define SET_ST sim::sim_state&, sim::tree_state&
#define SET_PLAIN 0
#elif SIM_SET == 9
// ... and over a control with unwind(), on a lazily tracking input (nodes hold bare data pointers)
#define SET_NAME "S9"
#define SET_IN sim::sim_mem< tao::pegtl::tracking_mode::lazy >
#define SET_CTL tao::pegtl::parse_tree::internal::make_control< tao::pegtl::parse_tree::node, sim::sim_selector, sim::sim_control >::type
#define SET_TREE_BASE sim::sim_control
#define SET_ST sim::sim_state&, sim::tree_state&
#define SET_PLAIN 0
#elif SIM_SET == 5
#define SET_NAME "S5"
#define SET_IN sim::sim_mem< tao::pegtl::tracking_mode::eager >
#define SET_CTL tao::pegtl::state_control< sim::sim_control >::type
#define SET_ST sim::sim_state&, sim::cov_state&
#define SET_PLAIN 0
#elif SIM_SET == 6
// sub-inputs created by rematch / minus: only the mini grammar runs on them
#define SET_NAME "S1p"
#define SET_IN sim::plain_mem
#define SET_CTL sim::sim_control
#define SET_ST sim::sim_state&
#define SET_PLAIN 1
#else
#error "unknown SIM_SET"
#endif

#define SIM_M4( KW, RULE, ACT, CTL, IN, ... )                                                                                                              \
   KW template bool RULE::match< tao::pegtl::apply_mode::action, tao::pegtl::rewind_mode::required, ACT, CTL, IN, __VA_ARGS__ >( IN&, __VA_ARGS__ );     \
   KW template bool RULE::match< tao::pegtl::apply_mode::action, tao::pegtl::rewind_mode::optional, ACT, CTL, IN, __VA_ARGS__ >( IN&, __VA_ARGS__ );     \
   KW template bool RULE::match< tao::pegtl::apply_mode::nothing, tao::pegtl::rewind_mode::required, ACT, CTL, IN, __VA_ARGS__ >( IN&, __VA_ARGS__ );    \
   KW template bool RULE::match< tao::pegtl::apply_mode::nothing, tao::pegtl::rewind_mode::optional, ACT, CTL, IN, __VA_ARGS__ >( IN&, __VA_ARGS__ );

// main family of this set
#define SIM_M4_MAIN( KW, RULE, ACT ) SIM_M4( KW, RULE, ACT, SET_CTL, SET_IN, SET_ST )
// control family 2 (plain-control sets only)
#define SIM_M4_C2( KW, RULE, ACT ) SIM_M4( KW, RULE, ACT, sim::ctl2, SET_IN, SET_ST )
// the mini grammar on rematch sub-inputs
#define SIM_M4_SUB( KW, RULE, ACT, CTL ) SIM_M4( KW, RULE, ACT, CTL, sim::plain_mem, sim::sim_state& )

#if SET_PLAIN
#define SIM_MINI_FAMILIES( KW, RULE )        \
   SIM_M4_MAIN( KW, RULE, sim::sim_action )  \
   SIM_M4_MAIN( KW, RULE, sim::act2 )        \
   SIM_M4_C2( KW, RULE, sim::sim_action )
#else
#define SIM_MINI_FAMILIES( KW, RULE )        \
   SIM_M4_MAIN( KW, RULE, sim::sim_action )  \
   SIM_M4_MAIN( KW, RULE, sim::act2 )
#endif

#define SIM_MINI_FAMILIES_SUB( KW, RULE )                       \
   SIM_M4_SUB( KW, RULE, sim::sim_action, sim::sim_control )    \
   SIM_M4_SUB( KW, RULE, sim::act2, sim::sim_control )          \
   SIM_M4_SUB( KW, RULE, sim::sim_action, sim::ctl2 )

#if SIM_SET != 6
#define SIM_DECLARE_NODES( KW )                         \
   SIM_M4_MAIN( KW, sim::node< 0 >, sim::sim_action )   \
   SIM_M4_MAIN( KW, sim::node< 1 >, sim::sim_action )   \
   SIM_M4_MAIN( KW, sim::node< 2 >, sim::sim_action )   \
   SIM_M4_MAIN( KW, sim::node< 3 >, sim::sim_action )   \
   SIM_M4_MAIN( KW, sim::node< 4 >, sim::sim_action )   \
   SIM_M4_MAIN( KW, sim::node< 5 >, sim::sim_action )   \
   SIM_M4_MAIN( KW, sim::node< 6 >, sim::sim_action )   \
   SIM_M4_MAIN( KW, sim::node< 7 >, sim::sim_action )   \
   SIM_M4_MAIN( KW, sim::atoms, sim::sim_action )
#else
#define SIM_DECLARE_NODES( KW )
#endif

#define SIM_DECLARE_MINIS( KW )                  \
   SIM_MINI_FAMILIES( KW, sim::mini< 0 > )       \
   SIM_MINI_FAMILIES( KW, sim::mini< 1 > )       \
   SIM_MINI_FAMILIES( KW, sim::mini< 2 > )

#if SIM_SET_REMATCH && SIM_SET != 6
#define SIM_DECLARE_SUB( KW )                    \
   SIM_MINI_FAMILIES_SUB( KW, sim::mini< 0 > )   \
   SIM_MINI_FAMILIES_SUB( KW, sim::mini< 1 > )   \
   SIM_MINI_FAMILIES_SUB( KW, sim::mini< 2 > )
#else
#define SIM_DECLARE_SUB( KW )
#endif

// every TU of a set sees all dispatchers of that set as extern; unit.cpp then defines its own
SIM_DECLARE_NODES( extern )
SIM_DECLARE_MINIS( extern )
SIM_DECLARE_SUB( extern )
