// ALLOC_FAIL: replaceable global allocation functions. While library code runs (W.in_library) the k-th
// allocation named by the fault plan throws std::bad_alloc; harness code suspends the window.
#include <cstdlib>
#include <new>

#include "sim.hpp"

namespace
{
   void* sim_alloc( std::size_t n, std::size_t align )
   {
      if( sim::W.in_library ) {
         std::uint32_t id = 0;
         const std::uint8_t c = sim::W.fault_at( sim::SITE_ALLOC, id );
         if( c != sim::EXC_NONE ) {
            {
               sim::Suspend sp;
               sim::Snap s;
               s.flags = sim::F_NOPOS;
               sim::log_fault( sim::SITE_ALLOC, sim::EXC_BAD_ALLOC, id, s );
            }
            throw std::bad_alloc();
         }
      }
      void* p = nullptr;
      if( align > alignof( std::max_align_t ) ) {
         if( ::posix_memalign( &p, align, n ? n : 1 ) != 0 ) {
            p = nullptr;
         }
      }
      else {
         p = std::malloc( n ? n : 1 );
      }
      if( p == nullptr ) {
         throw std::bad_alloc();
      }
      return p;
   }
}  // namespace

void* operator new( std::size_t n )
{
   return sim_alloc( n, 0 );
}
void* operator new[]( std::size_t n )
{
   return sim_alloc( n, 0 );
}
void* operator new( std::size_t n, std::align_val_t a )
{
   return sim_alloc( n, static_cast< std::size_t >( a ) );
}
void* operator new[]( std::size_t n, std::align_val_t a )
{
   return sim_alloc( n, static_cast< std::size_t >( a ) );
}
void* operator new( std::size_t n, const std::nothrow_t& ) noexcept
{
   return std::malloc( n ? n : 1 );
}
void* operator new[]( std::size_t n, const std::nothrow_t& ) noexcept
{
   return std::malloc( n ? n : 1 );
}
void operator delete( void* p ) noexcept
{
   std::free( p );
}
void operator delete[]( void* p ) noexcept
{
   std::free( p );
}
void operator delete( void* p, std::size_t ) noexcept
{
   std::free( p );
}
void operator delete[]( void* p, std::size_t ) noexcept
{
   std::free( p );
}
void operator delete( void* p, std::align_val_t ) noexcept
{
   std::free( p );
}
void operator delete[]( void* p, std::align_val_t ) noexcept
{
   std::free( p );
}
void operator delete( void* p, std::size_t, std::align_val_t ) noexcept
{
   std::free( p );
}
void operator delete[]( void* p, std::size_t, std::align_val_t ) noexcept
{
   std::free( p );
}
void operator delete( void* p, const std::nothrow_t& ) noexcept
{
   std::free( p );
}
void operator delete[]( void* p, const std::nothrow_t& ) noexcept
{
   std::free( p );
}
