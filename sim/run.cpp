// Runner for one instantiation set: builds the simulated input, calls the real
// tao::pegtl::parse / parse_tree::parse / coverage, records the outcome.
//   -DSIM_SET=<n> [-DSIM_CHUNK=<c>] -DSIM_RUN_FN=run_set<k>
#include "sets.hpp"

#include "case.hpp"

namespace sim
{
   extern char g_arena[];
#if SIM_SET == 5
   pegtl::coverage_result* g_cov_result = nullptr;
#endif

   namespace
   {
      template< typename Top, pegtl::apply_mode A, pegtl::rewind_mode M, typename In >
      bool do_parse( In& in, sim_state& root, RunResult& out )
      {
#if SIM_SET == 4 || SIM_SET == 9
         W.in_library = true;
         auto t = pegtl::parse_tree::parse< Top, pegtl::parse_tree::node, sim_selector, sim_action, SET_TREE_BASE >( in, root );
         W.in_library = false;
         out.have_tree = true;
         out.tree_null = !t;
         out.tree_lazy = !std::is_same_v< SET_IN, sim_mem< pegtl::tracking_mode::eager > >;
         if( t ) {
            struct Walk
            {
               static void go( const pegtl::parse_tree::node& n, std::uint32_t depth, std::vector< TreeNode >& v )
               {
                  TreeNode tn;
                  tn.type_name = std::string( n.type );
                  tn.type = n.type.empty() ? 0 : fnv1a( n.type.data(), n.type.size() );
                  tn.depth = depth;
                  tn.nchildren = static_cast< std::uint32_t >( n.children.size() );
                  if( !n.type.empty() ) {
                     // the span by the node's data pointers (every tracking mode); byte / line / column of the
                     // iterators only where the input tracks them eagerly
                     constexpr bool eager = std::is_same_v< SET_IN, sim_mem< pegtl::tracking_mode::eager > >;
                     tn.b = static_cast< std::uint32_t >( n.m_begin.data - W.arena );
                     if constexpr( eager ) {
                        if( n.m_begin.byte != tn.b ) {
                           tn.b = NOPOS - 1;  // iterator byte and data pointer disagree
                        }
                        tn.bl = static_cast< std::uint32_t >( n.m_begin.line );
                        tn.bc = static_cast< std::uint32_t >( n.m_begin.column );
                     }
                     tn.has_content = n.has_content();
                     if( tn.has_content ) {
                        tn.e = static_cast< std::uint32_t >( n.m_end.data - W.arena );
                        if constexpr( eager ) {
                           if( n.m_end.byte != tn.e ) {
                              tn.e = NOPOS - 1;
                           }
                           tn.el = static_cast< std::uint32_t >( n.m_end.line );
                           tn.ec = static_cast< std::uint32_t >( n.m_end.column );
                        }
                        // the content accessors must hand out exactly the matched bytes
                        if( tn.b <= tn.e && tn.e <= W.xlen ) {
                           const std::string_view want( W.arena + tn.b, tn.e - tn.b );
                           tn.content_ok = ( n.string_view() == want ) && ( n.string() == want );
                        }
                     }
                  }
                  v.push_back( tn );
                  for( const auto& c : n.children ) {
                     go( *c, depth + 1, v );
                  }
               }
            };
            Walk::go( *t, 0, out.tree );
         }
         return static_cast< bool >( t );
#elif SIM_SET == 5
         // what tao::pegtl::coverage() does, minus its up-front visit<>() of the rule graph (see sim.hpp)
         pegtl::coverage_result cr;
         g_cov_result = &cr;
         pegtl::internal::coverage_state cs( cr );
         W.in_library = true;
         bool r = false;
         try {
            r = pegtl::parse< Top, sim_action, pegtl::state_control< sim_control >::template type >( in, root, cs );
         }
         catch( ... ) {
            W.in_library = false;
            for( const auto& [ k, v ] : cr ) {
               out.cov.push_back( { std::string( k ), "", v.start, v.success, v.failure, v.unwind, v.raise, v.raise_nested } );
               for( const auto& [ bk, bv ] : v.branches ) {
                  out.cov.push_back( { std::string( k ), std::string( bk ), bv.start, bv.success, bv.failure, bv.unwind, bv.raise, bv.raise_nested } );
               }
            }
            throw;
         }
         W.in_library = false;
         for( const auto& [ k, v ] : cr ) {
            out.cov.push_back( { std::string( k ), "", v.start, v.success, v.failure, v.unwind, v.raise, v.raise_nested } );
            for( const auto& [ bk, bv ] : v.branches ) {
               out.cov.push_back( { std::string( k ), std::string( bk ), bv.start, bv.success, bv.failure, bv.unwind, bv.raise, bv.raise_nested } );
            }
         }
         return r;
#else
         (void)out;
         W.in_library = true;
         const bool r = pegtl::parse< Top, sim_action, sim_control, A, M >( in, root );
         W.in_library = false;
         return r;
#endif
      }

      template< typename Top, typename In >
      bool do_modes( int a, int m, In& in, sim_state& root, RunResult& out )
      {
         using pegtl::apply_mode;
         using pegtl::rewind_mode;
#if SIM_SET == 4 || SIM_SET == 5 || SIM_SET == 9
         (void)a;
         (void)m;
         return do_parse< Top, apply_mode::action, rewind_mode::optional >( in, root, out );  // the facility's own entry point fixes A and M
#else
         if( a ) {
            return m ? do_parse< Top, apply_mode::action, rewind_mode::required >( in, root, out ) : do_parse< Top, apply_mode::action, rewind_mode::optional >( in, root, out );
         }
         return m ? do_parse< Top, apply_mode::nothing, rewind_mode::required >( in, root, out ) : do_parse< Top, apply_mode::nothing, rewind_mode::optional >( in, root, out );
#endif
      }

      template< typename In >
      bool do_shape( const Case& c, In& in, sim_state& root, RunResult& out )
      {
         switch( c.shape ) {
            case 0: return do_modes< top0 >( c.topA, c.topM, in, root, out );
            case 1: return do_modes< top1 >( c.topA, c.topM, in, root, out );
            case 2: return do_modes< top2 >( c.topA, c.topM, in, root, out );
            case 3: return do_modes< top3 >( c.topA, c.topM, in, root, out );
            case 4: return do_modes< top4 >( c.topA, c.topM, in, root, out );
            default: return do_modes< top5 >( c.topA, c.topM, in, root, out );
         }
      }

      template< typename In >
      void run_with( const Case& c, In& in, RunResult& out )
      {
         {
            sim_state root;
            Snap s0 = snap( in );
            log_event( Ev::TOP_BEGIN, 0, 0, 0, 0, s0, root.id );
            bool r = false;
            bool threw = false;
            std::uint32_t xi = 0;
            try {
               r = do_shape( c, in, root, out );
            }
            catch( ... ) {
               W.in_library = false;
               threw = true;
               xi = classify_current_exception();
            }
            W.in_library = false;
            log_event( Ev::TOP_END, 0, ( r ? F_RESULT : 0 ) | ( threw ? F_EXC : 0 ), 0, 0, snap( in ), root.id, xi );
         }
      }
   }  // namespace

   RunResult SIM_RUN_FN( const Case& c )
   {
      RunResult out;
      W.reset_run();
      W.g = c.g;
      W.faults = c.faults;
      W.reads = c.reads;
      W.vetoseed = c.vetoseed;
      W.xlen = c.input.size();
      if( W.xlen > ARENA - 2 * GUARD ) {
         W.xlen = ARENA - 2 * GUARD;
      }
      // memory arena: [ guard | X | guard ... ], everything but X poisoned
      SIM_UNPOISON( g_arena, ARENA );
      std::memset( g_arena, 0x5a, ARENA );
      W.arena = g_arena + GUARD;
      std::memcpy( g_arena + GUARD, c.input.data(), W.xlen );
      W.xdata = c.input.data();
      SIM_POISON( g_arena, ARENA );
      SIM_UNPOISON( g_arena + GUARD, W.xlen );
      {
#if SIM_SET == 2
         SET_IN in( c.maximum );
#else
         SET_IN in( W.arena, W.arena + W.xlen );
#endif
         run_with( c, in, out );
      }
      SIM_UNPOISON( g_arena, ARENA );
      out.h.assign( W.h.begin(), W.h.end() );  // W.h keeps its (large) buffer across runs
      W.h.clear();
      out.excs.swap( W.excs );
      out.aborted = W.aborted;
      out.asan_hits = W.asan_hits;
      out.faults_fired = W.fault_fired;
      out.max_depth = W.max_open_depth;
      out.reads_after_eof = W.reads_after_eof;
      out.hash = history_hash( out.h, out.excs );
      return out;
   }

}  // namespace sim
