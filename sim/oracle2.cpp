// Oracles for the parse tree (C12) and the coverage facility (C08.coverage).
// Both rebuild what the facility must have produced from the same run's recorded history.
#include <algorithm>
#include <map>
#include <memory>
#include <sstream>

#include "oracle.hpp"

namespace sim
{
   namespace
   {
      struct XNode
      {
         std::uint64_t type = 0;
         std::string name;
         std::uint32_t b = 0, bl = 0, bc = 0, e = 0, el = 0, ec = 0;
         bool has_content = true;
         std::vector< std::unique_ptr< XNode > > children;
      };

      struct XFrame
      {
         std::uint32_t rule = 0;
         std::uint32_t b = 0, bl = 0, bc = 0;
         bool delegating = false;
         std::uint32_t nested = 0;
         std::vector< std::unique_ptr< XNode > > children;
      };

      void flatten( const XNode& n, std::uint32_t depth, std::vector< TreeNode >& out )
      {
         TreeNode t;
         t.type = n.type;
         t.type_name = n.name;
         t.b = n.b;
         t.bl = n.bl;
         t.bc = n.bc;
         t.has_content = n.has_content;
         if( n.has_content ) {
            t.e = n.e;
            t.el = n.el;
            t.ec = n.ec;
         }
         t.depth = depth;
         t.nchildren = static_cast< std::uint32_t >( n.children.size() );
         out.push_back( t );
         for( const auto& c : n.children ) {
            flatten( *c, depth + 1, out );
         }
      }

      std::string node_str( const TreeNode& t )
      {
         std::ostringstream o;
         std::string n = t.type_name;
         if( n.size() > 60 ) {
            n = n.substr( 0, 60 ) + "...";
         }
         o << "{" << ( n.empty() ? "ROOT" : n ) << " depth " << t.depth << " begin " << int( t.b ) << ":" << t.bl << ":" << t.bc;
         if( t.has_content ) {
            o << " end " << int( t.e ) << ":" << t.el << ":" << t.ec;
         }
         else {
            o << " no-content";
         }
         o << " children " << t.nchildren << "}";
         return o.str();
      }

      std::string head( const std::string& n )
      {
         const std::size_t lt = n.find( '<' );
         return lt == std::string::npos ? n : n.substr( 0, lt );
      }
   }  // namespace

   void check_tree( const Case& c, const RunResult& r, std::vector< Violation >& out, Features& f )
   {
      (void)c;
      (void)f;
      auto viol = [ & ]( const char* oracle, const std::string& key, const std::string& detail ) {
         if( out.size() < 16 ) {
            out.push_back( Violation{ oracle, key, detail, 0 } );
         }
      };
      // expected tree from the history
      std::vector< XFrame > st;
      st.emplace_back();  // root
      bool top_result = false, top_exc = false;
      for( const Event& e : r.h ) {
         if( e.kind == Ev::ENTER ) {
            XFrame fr;
            fr.rule = e.rule;
            fr.b = e.byte;
            fr.bl = e.line;
            fr.bc = e.col;
            if( st.size() > 1 && st.back().nested == 0 && st.back().rule == e.rule ) {
               st.back().delegating = true;
            }
            ++st.back().nested;
            st.push_back( std::move( fr ) );
         }
         else if( e.kind == Ev::EXIT || e.kind == Ev::EXC ) {
            if( st.size() < 2 ) {
               viol( "HARNESS", "tree-frames", "unbalanced history" );
               return;
            }
            XFrame fr = std::move( st.back() );
            st.pop_back();
            if( e.kind == Ev::EXC || !( e.flags & F_RESULT ) ) {
               continue;  // backtracked or aborted branch: nothing survives
            }
            XFrame& parent = st.back();
            const int sel = fr.delegating ? -1 : g_rules[ fr.rule ].sel;
            if( sel < 0 ) {
               for( auto& ch : fr.children ) {
                  parent.children.push_back( std::move( ch ) );
               }
               continue;
            }
            auto n = std::make_unique< XNode >();
            n->name = g_rules[ fr.rule ].name;
            n->type = g_rules[ fr.rule ].namehash;
            n->b = fr.b;
            n->bl = fr.bl;
            n->bc = fr.bc;
            n->e = e.byte;
            n->el = e.line;
            n->ec = e.col;
            n->children = std::move( fr.children );
            switch( sel ) {
               case 2:
                  n->has_content = false;
                  break;
               case 3:
                  if( n->children.size() == 1 ) {
                     n = std::move( n->children.front() );
                  }
                  else {
                     n->has_content = false;
                  }
                  break;
               case 4:
                  if( n->children.empty() ) {
                     n.reset();
                  }
                  else {
                     n->has_content = false;
                  }
                  break;
               default:
                  break;
            }
            if( n ) {
               parent.children.push_back( std::move( n ) );
            }
         }
         else if( e.kind == Ev::TOP_END ) {
            top_result = ( e.flags & F_RESULT ) != 0;
            top_exc = ( e.flags & F_EXC ) != 0;
         }
      }
      if( top_exc ) {
         return;  // the exception reached the caller: no tree is returned (exception oracles judge the rest)
      }
      if( !r.have_tree ) {
         viol( "HARNESS", "no-tree", "tree run without tree result" );
         return;
      }
      // C12.null
      bool top_true = false;
      for( const Event& e : r.h ) {
         if( e.kind == Ev::EXIT && g_rules[ e.rule ].cls == RC::TOP ) {
            top_true = ( e.flags & F_RESULT ) != 0;
         }
      }
      (void)top_result;
      if( r.tree_null == top_true ) {
         viol( "C12.null", "null", std::string( "parse_tree::parse returned " ) + ( r.tree_null ? "no tree" : "a tree" ) + " although the top-level rule " + ( top_true ? "matched" : "failed" ) );
         return;
      }
      if( r.tree_null ) {
         return;
      }
      XNode root;
      root.has_content = false;
      root.children = std::move( st.front().children );
      std::vector< TreeNode > want;
      flatten( root, 0, want );
      const std::vector< TreeNode >& got = r.tree;
      const std::size_t n = std::min( want.size(), got.size() );
      for( std::size_t i = 0; i < n; ++i ) {
         const TreeNode& a = want[ i ];
         const TreeNode& b = got[ i ];
         const bool lc = !r.tree_lazy;  // line / column only where the nodes carry them
         const bool same = a.type == b.type && a.depth == b.depth && a.nchildren == b.nchildren && ( i == 0 || ( a.b == b.b && ( !lc || ( a.bl == b.bl && a.bc == b.bc ) ) && a.has_content == b.has_content && ( !a.has_content || ( a.e == b.e && ( !lc || ( a.el == b.el && a.ec == b.ec ) ) ) ) ) );
         if( !same ) {
            viol( "C12.tree", head( b.type_name.empty() ? a.type_name : b.type_name ), "node " + std::to_string( i ) + " (preorder) differs: derivation has " + node_str( a ) + ", returned tree has " + node_str( b ) );
            return;
         }
         if( !b.content_ok ) {
            viol( "C12.tree", "content:" + head( b.type_name ), "node " + std::to_string( i ) + " (preorder) " + node_str( b ) + ": string_view() / string() are not the bytes the rule matched" );
            return;
         }
      }
      if( want.size() != got.size() ) {
         const bool extra = got.size() > want.size();
         const TreeNode& t = extra ? got[ n ] : want[ n ];
         viol( "C12.tree", head( t.type_name ), std::string( extra ? "returned tree has a node that is not part of the surviving derivation: " : "returned tree lacks a node of the surviving derivation: " ) + node_str( t ) );
      }
   }

   void check_coverage( const Case& c, const RunResult& r, std::vector< Violation >& out, Features& f )
   {
      (void)c;
      (void)f;
      auto viol = [ & ]( const std::string& key, const std::string& detail ) {
         if( out.size() < 16 ) {
            out.push_back( Violation{ "C08.coverage", key, detail, 0 } );
         }
      };
      struct Cnt
      {
         std::uint64_t start = 0, success = 0, failure = 0, unwind = 0, raise = 0, raise_nested = 0;
      };
      std::map< std::string, Cnt > want;  // "rule" and "rule\nbranch"
      struct CF
      {
         std::uint32_t rule = 0;
         bool delegating = false;
         std::uint32_t nested = 0;
         int closing = -1;
      };
      std::vector< CF > st;
      bool map_at = false;
      auto parent_of = [ & ]( std::size_t upto ) -> const CF* {
         for( std::size_t i = upto; i-- > 0; ) {
            if( !st[ i ].delegating ) {
               return &st[ i ];
            }
         }
         return nullptr;
      };
      for( const Event& e : r.h ) {
         switch( e.kind ) {
            case Ev::ENTER: {
               if( !st.empty() && st.back().nested == 0 && st.back().rule == e.rule ) {
                  // change_action & co.: the outer Control< Rule >::match never reaches tao::pegtl::match
                  // (undo the start that was counted for it)
                  const std::string& rn = g_rules[ e.rule ].name;
                  --want[ rn ].start;
                  if( const CF* p = parent_of( st.size() - 1 ) ) {
                     --want[ g_rules[ p->rule ].name + "\n" + rn ].start;
                  }
                  st.back().delegating = true;
               }
               if( !st.empty() ) {
                  ++st.back().nested;
               }
               CF fr;
               fr.rule = e.rule;
               st.push_back( fr );
               const std::string& rn = g_rules[ e.rule ].name;
               ++want[ rn ].start;
               if( const CF* p = parent_of( st.size() - 1 ) ) {
                  ++want[ g_rules[ p->rule ].name + "\n" + rn ].start;
               }
               break;
            }
            case Ev::SUCCESS:
            case Ev::FAILURE:
            case Ev::UNWIND:
               if( !st.empty() && st.back().rule == e.rule ) {
                  st.back().closing = int( e.kind );
               }
               break;
            case Ev::RAISE:
            case Ev::RAISE_NESTED: {
               const std::string& rn = g_rules[ e.rule ].name;
               ( e.kind == Ev::RAISE ? want[ rn ].raise : want[ rn ].raise_nested ) += 1;
               if( const CF* p = parent_of( st.size() ) ) {
                  Cnt& b = want[ g_rules[ p->rule ].name + "\n" + rn ];
                  ( e.kind == Ev::RAISE ? b.raise : b.raise_nested ) += 1;
               }
               break;
            }
            case Ev::EXIT:
            case Ev::EXC: {
               if( st.empty() ) {
                  return;
               }
               const CF fr = st.back();
               st.pop_back();
               if( e.kind == Ev::EXC && e.x < r.excs.size() && r.excs[ e.x ].cls == EXC_OTHER_STD && r.excs[ e.x ].what.find( "map::at" ) != std::string::npos ) {
                  map_at = true;
               }
               if( fr.delegating ) {
                  break;
               }
               int outcome;  // what the coverage state was told for this invocation
               if( fr.closing >= 0 ) {
                  outcome = fr.closing;
               }
               else if( e.kind == Ev::EXC ) {
                  outcome = int( Ev::UNWIND );
               }
               else {
                  outcome = ( e.flags & F_RESULT ) ? int( Ev::SUCCESS ) : int( Ev::FAILURE );
               }
               const std::string& rn = g_rules[ fr.rule ].name;
               Cnt* tgt[ 2 ] = { &want[ rn ], nullptr };
               if( const CF* p = parent_of( st.size() ) ) {
                  tgt[ 1 ] = &want[ g_rules[ p->rule ].name + "\n" + rn ];
               }
               for( Cnt* t : tgt ) {
                  if( t == nullptr ) {
                     continue;
                  }
                  if( outcome == int( Ev::SUCCESS ) ) {
                     ++t->success;
                  }
                  else if( outcome == int( Ev::FAILURE ) ) {
                     ++t->failure;
                  }
                  else {
                     ++t->unwind;
                  }
               }
               break;
            }
            default:
               break;
         }
      }
      if( map_at ) {
         viol( "map-at", "the coverage facility threw std::out_of_range (map::at) in place of the grammar's own outcome" );
         return;
      }
      // compare with the returned coverage_result (rules the run never started have all-zero counters)
      std::map< std::string, Cnt > got;
      for( const CovEntry& ce : r.cov ) {
         Cnt& g = got[ ce.branch.empty() ? ce.rule : ce.rule + "\n" + ce.branch ];
         g.start = ce.start;
         g.success = ce.success;
         g.failure = ce.failure;
         g.unwind = ce.unwind;
         g.raise = ce.raise;
         g.raise_nested = ce.raise_nested;
      }
      auto show = []( const std::string& k ) {
         std::string s = k;
         std::replace( s.begin(), s.end(), '\n', '|' );
         if( s.size() > 120 ) {
            s = s.substr( 0, 120 ) + "...";
         }
         return s;
      };
      for( const auto& [ k, w ] : want ) {
         const auto it = got.find( k );
         const Cnt g = ( it == got.end() ) ? Cnt() : it->second;
         if( g.start != w.start || g.success != w.success || g.failure != w.failure || g.unwind != w.unwind || g.raise != w.raise || g.raise_nested != w.raise_nested ) {
            std::ostringstream o;
            o << "coverage of " << show( k ) << ": start/success/failure/unwind/raise/raise_nested = " << g.start << "/" << g.success << "/" << g.failure << "/" << g.unwind << "/" << g.raise << "/" << g.raise_nested << ", the run's own log says " << w.start << "/" << w.success << "/" << w.failure << "/" << w.unwind << "/" << w.raise << "/" << w.raise_nested;
            viol( head( k.substr( 0, k.find( '\n' ) ) ), o.str() );
            return;
         }
      }
      for( const auto& [ k, g ] : got ) {
         if( g.start != g.success + g.failure + g.unwind ) {
            std::ostringstream o;
            o << "coverage of " << show( k ) << ": start " << g.start << " != success " << g.success << " + failure " << g.failure << " + unwind " << g.unwind;
            viol( head( k.substr( 0, k.find( '\n' ) ) ), o.str() );
            return;
         }
         if( want.find( k ) == want.end() && ( g.start || g.success || g.failure || g.unwind || g.raise || g.raise_nested ) ) {
            viol( head( k.substr( 0, k.find( '\n' ) ) ), "coverage reports activity for " + show( k ) + " that the run's own log does not contain" );
            return;
         }
      }
   }

}  // namespace sim
