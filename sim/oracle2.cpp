// Oracles for the parse tree (C12) and the coverage facility (C08.coverage).
#include "oracle.hpp"

namespace sim
{
   void check_tree( const Case&, const RunResult&, std::vector< Violation >&, Features& ) {}
   void check_coverage( const Case&, const RunResult&, std::vector< Violation >&, Features& ) {}
}  // namespace sim
