// Op / atom metadata without any PEGTL types (for generation, analysis, replay files).
#pragma once
#include <cstdint>
#include <string>

#include "world.hpp"

namespace sim
{
   enum OpId : std::uint8_t
   {
#define OP( NAME, ARITY, CAPS, ... ) OP_##NAME,
#include "ops.def"
#undef OP
      N_OPS
   };

   enum AtomId : std::uint8_t
   {
#define ATOM( NAME, CAPS, NULLABLE, ... ) ATOM_##NAME,
#include "atoms.def"
#undef ATOM
      N_ATOMS
   };

   enum MAtomId : std::uint8_t
   {
      MATOM_ONE_A,
      MATOM_ONE_B,
      MATOM_ANY,
      MATOM_STR_AB,
      MATOM_DIGIT,
      MATOM_EOF,
      MATOM_SUCCESS,
      MATOM_FAILURE,
      N_MATOMS
   };

   enum MiniOp : std::uint8_t
   {
      MOP_ATOM,
      MOP_SEQ2,
      MOP_SOR2,
      MOP_STAR,
      MOP_OPT,
      MOP_AT,
      MOP_NOT_AT,
      MOP_MUST,
      MOP_TC_ANY_RF,
      MOP_CA,       // change_action< act2 > (action of family 1 only)
      MOP_CC,       // change_control< ctl2 > (family 1 action, plain control sets only)
      MOP_ACTION,   // action< act2, ... > rule
      MOP_CONTROL,  // control< ctl2, ... > rule
      MOP_CAS,      // change_action_and_state
      MOP_CASS,     // change_action_and_states
      MOP_DISABLE,
      MOP_ENABLE,
      MOP_STATE,
      // a PEGTL switching rule whose direct child carries a match()-bearing action of its own
      MOP_CONTROL_CS,   // control< ctl2, mw_cs >     child: change_state
      MOP_CONTROL_DA,   // control< ctl2, mw_da >     child: disable_action
      MOP_ACTION_CAS,   // action< act2, mw_cas >     child under act2: enable_action
      MOP_ACTION_CASS,  // action< act2, mw_cass >    child under act2: disable_action
      MOP_DISABLE_CA,   // disable< mw_ca >           child: change_action< act2 >
      MOP_STATE_CC,     // state< sim_state, mw_cc >  child: change_control< ctl2 >
      N_MOPS
   };

   struct OpMeta
   {
      const char* name;
      int arity;
      unsigned caps;
   };
   struct AtomMeta
   {
      const char* name;
      unsigned caps;
      bool nullable;
   };

   extern const OpMeta op_meta[ N_OPS ];
   extern const AtomMeta atom_meta[ N_ATOMS ];
   extern const OpMeta mop_meta[ N_MOPS ];
   extern const AtomMeta matom_meta[ N_MATOMS ];

   const char* op_name( int op );
   const char* atom_name( int a );
   const char* mop_name( int op );
   const char* matom_name( int a );
   int op_by_name( const std::string& n );
   int atom_by_name( const std::string& n );
   int mop_by_name( const std::string& n );
   int matom_by_name( const std::string& n );

}  // namespace sim
