// Simulated environment of the stock file / stream inputs: fopencookie streams, a streambuf,
// link-time wrappers for open / fopen / fstat / mmap / munmap, and the temp file they operate on.
#ifndef _GNU_SOURCE
#define _GNU_SOURCE
#endif
#include <cerrno>
#include <cstdarg>
#include <cstdio>
#include <cstring>
#include <ios>
#include <string>

#include <fcntl.h>
#include <sys/mman.h>
#include <sys/stat.h>
#include <unistd.h>

#include "io.hpp"
#include "sim.hpp"

extern "C"
{
   int __real_open( const char* path, int flags, ... );
   std::FILE* __real_fopen( const char* path, const char* mode );
   int __real_fstat( int fd, struct stat* st );
   void* __real_mmap( void* addr, size_t len, int prot, int flags, int fd, off_t off );
   int __real_munmap( void* addr, size_t len );
   size_t __real_fread( void* ptr, size_t size, size_t nmemb, std::FILE* stream );
}

namespace sim
{
   namespace
   {
      Snap nopos()
      {
         Snap s;
         s.flags = F_NOPOS;
         return s;
      }

      // returns the errno to fail with, 0 = no fault
      int syscall_fault()
      {
         if( !W.io_active ) {
            return 0;
         }
         std::uint32_t id = 0;
         const std::uint8_t c = W.fault_at( SITE_SYSCALL, id );
         if( c == EXC_NONE ) {
            return 0;
         }
         static const int errs[] = { EIO, EACCES, ENOMEM, EMFILE };
         const int e = errs[ id % 4 ];
         log_fault( SITE_SYSCALL, c, id, nopos() );
         log_event( Ev::IOERR, 0, 0, 0, 0, nopos(), 0, static_cast< std::uint64_t >( e ), 1 );
         return e;
      }

      // number of bytes the next reader-level transfer may deliver at most
      std::size_t next_chunk( std::size_t wanted )
      {
         std::size_t n = wanted;
         if( W.read_idx < W.reads.size() ) {
            n = W.reads[ W.read_idx++ ];
            if( n == 0 ) {
               n = 1;
            }
         }
         return n < wanted ? n : wanted;
      }

      struct Cookie
      {
         std::size_t pos = 0;
         bool seekable = false;
         bool failed = false;
      };

      ssize_t cookie_read( void* ck, char* buf, size_t size )
      {
         auto* c = static_cast< Cookie* >( ck );
         std::uint32_t id = 0;
         const std::uint8_t f = W.fault_at( SITE_READER, id );
         if( f != EXC_NONE || c->failed ) {
            if( !c->failed ) {
               log_fault( SITE_READER, f, id, nopos() );
            }
            c->failed = true;  // a failed descriptor keeps failing
            errno = EIO;
            return -1;
         }
         const std::size_t real_len = W.xlen - ( W.short_by < W.xlen ? W.short_by : W.xlen );  // seek still reports W.xlen
         const std::size_t remaining = real_len - ( c->pos < real_len ? c->pos : real_len );
         std::size_t n = next_chunk( size );
         if( n > remaining ) {
            n = remaining;
         }
         if( n > 0 ) {
            std::memcpy( buf, W.xdata + c->pos, n );
            c->pos += n;
            W.delivered += n;
         }
         log_event( Ev::READ, 0, 0, 0, 0, nopos(), 0, ( std::uint64_t( size ) << 32 ) | n, 0 );
         return static_cast< ssize_t >( n );
      }

      int cookie_seek( void* ck, off64_t* offset, int whence )
      {
         auto* c = static_cast< Cookie* >( ck );
         if( !c->seekable ) {
            errno = ESPIPE;
            return -1;
         }
         if( const int e = syscall_fault() ) {
            errno = e;
            return -1;
         }
         off64_t np;
         switch( whence ) {
            case SEEK_SET:
               np = *offset;
               break;
            case SEEK_CUR:
               np = static_cast< off64_t >( c->pos ) + *offset;
               break;
            case SEEK_END:
               np = static_cast< off64_t >( W.xlen ) + *offset;
               break;
            default:
               errno = EINVAL;
               return -1;
         }
         if( np < 0 ) {
            errno = EINVAL;
            return -1;
         }
         c->pos = static_cast< std::size_t >( np );
         *offset = np;
         return 0;
      }

      int cookie_close( void* ck )
      {
         delete static_cast< Cookie* >( ck );
         return 0;
      }

      std::string g_tmp_path;
      std::string g_tmp_content;
      bool g_tmp_valid = false;

      struct GuardMap
      {
         void* base = nullptr;
         std::size_t total = 0;
         void* data = nullptr;
         std::size_t len = 0;
      };
      GuardMap g_guard[ 8 ];
   }  // namespace

   std::FILE* make_cookie_file( bool seekable )
   {
      auto* c = new Cookie;
      c->seekable = seekable;
      cookie_io_functions_t fn;
      fn.read = cookie_read;
      fn.write = nullptr;
      fn.seek = cookie_seek;
      fn.close = cookie_close;
      std::FILE* f = fopencookie( c, "r", fn );
      if( f == nullptr ) {
         delete c;
      }
      return f;
   }

   std::string temp_file_with( const std::string& bytes )
   {
      if( g_tmp_path.empty() ) {
         char exe[ 4096 ];
         const ssize_t n = ::readlink( "/proc/self/exe", exe, sizeof( exe ) - 1 );
         std::string dir = ".";
         if( n > 0 ) {
            exe[ n ] = 0;
            dir = exe;
            dir = dir.substr( 0, dir.rfind( '/' ) );
         }
         g_tmp_path = dir + "/iotmp." + std::to_string( ::getpid() );
      }
      if( !g_tmp_valid || g_tmp_content != bytes ) {
         const int fd = __real_open( g_tmp_path.c_str(), O_WRONLY | O_CREAT | O_TRUNC, 0600 );
         if( fd >= 0 ) {
            std::size_t off = 0;
            while( off < bytes.size() ) {
               const ssize_t w = ::write( fd, bytes.data() + off, bytes.size() - off );
               if( w <= 0 ) {
                  break;
               }
               off += static_cast< std::size_t >( w );
            }
            ::close( fd );
            g_tmp_content = bytes;
            g_tmp_valid = true;
         }
      }
      return g_tmp_path;
   }

   void io_cleanup()
   {
      if( !g_tmp_path.empty() ) {
         ::unlink( g_tmp_path.c_str() );
      }
   }

   // ------------------------------------------------------------ streambuf
   std::streamsize sim_streambuf::xsgetn( char* s, std::streamsize n )
   {
      // one reader-level transfer: like read(2) on a pipe it may block for more data, so it
      // is only ever short at end of input or on error (that is what istream::read promises)
      std::streamsize got = 0;
      std::uint32_t id = 0;
      const std::uint8_t f = W.fault_at( SITE_READER, id );
      while( got < n ) {
         const std::size_t remaining = W.xlen - W.delivered;
         if( remaining == 0 ) {
            break;
         }
         std::size_t k = next_chunk( static_cast< std::size_t >( n - got ) );
         if( k > remaining ) {
            k = remaining;
         }
         std::memcpy( s + got, W.xdata + W.delivered, k );
         W.delivered += k;
         got += static_cast< std::streamsize >( k );
         if( f != EXC_NONE && got > 0 ) {
            break;  // the device fails after a partial transfer: the data that arrived is delivered first
         }
      }
      log_event( Ev::READ, 0, 0, 0, 0, nopos(), 0, ( std::uint64_t( n ) << 32 ) | static_cast< std::uint64_t >( got ), 0 );
      if( f != EXC_NONE ) {
         log_fault( SITE_READER, f, id, nopos() );
         if( got == 0 ) {
            log_event( Ev::IOERR, 0, 0, 0, 0, nopos(), 0, EIO, 0 );
            errno = EIO;
            throw std::ios_base::failure( "simulated device error" );
         }
         // error after partial data: surfaces on the next transfer
         W.faults.push_back( FaultOp{ SITE_READER, EXC_IO, static_cast< std::uint16_t >( W.site_count[ SITE_READER ] + 1 ) } );
      }
      return got;
   }

   sim_streambuf::int_type sim_streambuf::underflow()
   {
      return traits_type::eof();  // unbuffered: everything goes through xsgetn
   }

}  // namespace sim

// ------------------------------------------------------------ link-time wrappers (-Wl,--wrap=...)
extern "C"
{
   int __wrap_open( const char* path, int flags, ... )
   {
      mode_t mode = 0;
      if( flags & O_CREAT ) {
         va_list ap;
         va_start( ap, flags );
         mode = static_cast< mode_t >( va_arg( ap, int ) );
         va_end( ap );
      }
      if( const int e = sim::syscall_fault() ) {
         errno = e;
         return -1;
      }
      return __real_open( path, flags, mode );
   }

   std::FILE* __wrap_fopen( const char* path, const char* mode )
   {
      if( const int e = sim::syscall_fault() ) {
         errno = e;
         return nullptr;
      }
      return __real_fopen( path, mode );
   }

   int __wrap_fstat( int fd, struct stat* st )
   {
      if( const int e = sim::syscall_fault() ) {
         errno = e;
         return -1;
      }
      return __real_fstat( fd, st );
   }

   void* __wrap_mmap( void* addr, size_t len, int prot, int flags, int fd, off_t off )
   {
      if( !sim::W.io_active || fd < 0 || len == 0 ) {
         return __real_mmap( addr, len, prot, flags, fd, off );
      }
      if( const int e = sim::syscall_fault() ) {
         errno = e;
         return MAP_FAILED;
      }
      // map the file directly in front of an inaccessible page, so that reading one byte past a file
      // whose size is a multiple of the page size faults
      const std::size_t page = static_cast< std::size_t >( ::sysconf( _SC_PAGESIZE ) );
      const std::size_t rounded = ( len + page - 1 ) / page * page;
      void* region = __real_mmap( nullptr, rounded + page, PROT_NONE, MAP_PRIVATE | MAP_ANONYMOUS, -1, 0 );
      if( region == MAP_FAILED ) {
         return __real_mmap( addr, len, prot, flags, fd, off );
      }
      void* data = __real_mmap( region, len, prot, flags | MAP_FIXED, fd, off );
      if( data == MAP_FAILED ) {
         const int e = errno;
         __real_munmap( region, rounded + page );
         errno = e;
         return MAP_FAILED;
      }
      for( auto& g : sim::g_guard ) {
         if( g.base == nullptr ) {
            g.base = region;
            g.total = rounded + page;
            g.data = data;
            g.len = len;
            break;
         }
      }
      return data;
   }

   size_t __wrap_fread( void* ptr, size_t size, size_t nmemb, std::FILE* stream )
   {
      const size_t r = __real_fread( ptr, size, nmemb, stream );
      if( sim::W.io_active && r == 0 && nmemb != 0 && size != 0 && std::ferror( stream ) != 0 ) {
         // the stream reported an error and delivered nothing: the library must turn this into an exception
         sim::log_event( sim::Ev::IOERR, 0, 0, 0, 0, sim::nopos(), 0, static_cast< std::uint64_t >( errno ), 0 );
      }
      return r;
   }

   int __wrap_munmap( void* addr, size_t len )
   {
      for( auto& g : sim::g_guard ) {
         if( g.base != nullptr && g.data == addr ) {
            const int r = __real_munmap( g.base, g.total );
            g = sim::GuardMap();
            return r;
         }
      }
      return __real_munmap( addr, len );
   }
}
