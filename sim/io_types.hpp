#pragma once
#include <tao/pegtl.hpp>

#include "sim.hpp"

namespace sim
{
   using io_mem_eager = pegtl::memory_input< pegtl::tracking_mode::eager, mem_eol, std::string >;
   using io_mem_lazy = pegtl::memory_input< pegtl::tracking_mode::lazy, mem_eol, std::string >;
   using io_cstream = pegtl::cstream_input< mem_eol, 64 >;
   using io_istream = pegtl::istream_input< mem_eol, 64 >;

   // the other end-of-line policies: plain memory input vs. a stock buffer_input fed by the simulated reader
   template< typename Eol >
   using io_mem_eol = pegtl::memory_input< pegtl::tracking_mode::eager, Eol, std::string >;
   template< typename Eol >
   using io_buf_eol = pegtl::buffer_input< sim_reader, Eol, std::string, 4 >;

   // parse input type by number (IO_INPUT of io_unit.cpp)
   template< int K > struct io_input;
   template<> struct io_input< 0 > { using type = io_mem_eager; };
   template<> struct io_input< 1 > { using type = io_mem_lazy; };
   template<> struct io_input< 2 > { using type = io_cstream; };
   template<> struct io_input< 3 > { using type = io_istream; };
   template<> struct io_input< 4 > { using type = io_mem_eol< pegtl::eol::cr >; };
   template<> struct io_input< 5 > { using type = io_mem_eol< pegtl::eol::crlf >; };
   template<> struct io_input< 6 > { using type = io_mem_eol< pegtl::eol::cr_crlf >; };
   template<> struct io_input< 7 > { using type = io_mem_eol< pegtl::eol::lf >; };
   template<> struct io_input< 8 > { using type = io_buf_eol< pegtl::eol::cr >; };
   template<> struct io_input< 9 > { using type = io_buf_eol< pegtl::eol::crlf >; };
   template<> struct io_input< 10 > { using type = io_buf_eol< pegtl::eol::cr_crlf >; };
   template<> struct io_input< 11 > { using type = io_buf_eol< pegtl::eol::lf >; };

   // programs 9 / 10 (tracer): compares what the tracer printed, and the state it is left in, with the recorded history
   void tracer_check( const std::string& printed, std::size_t stack_size, std::size_t count, bool complete, const Snap& at );

   // defined in io_unit.cpp, one explicit specialisation per ( program, input type )
   template< int Prog, typename In >
   bool io_parse( In& in, sim_state& root );

#define SIM_IO_DECL( P, K ) template<> bool io_parse< P, io_input< K >::type >( io_input< K >::type&, sim_state& );
   SIM_IO_DECL( 1, 0 )
   SIM_IO_DECL( 1, 1 )
   SIM_IO_DECL( 1, 2 )
   SIM_IO_DECL( 1, 3 )
   SIM_IO_DECL( 2, 0 )
   SIM_IO_DECL( 2, 1 )
   SIM_IO_DECL( 2, 2 )
   SIM_IO_DECL( 2, 3 )
   SIM_IO_DECL( 2, 4 )
   SIM_IO_DECL( 2, 5 )
   SIM_IO_DECL( 2, 6 )
   SIM_IO_DECL( 2, 7 )
   SIM_IO_DECL( 2, 8 )
   SIM_IO_DECL( 2, 9 )
   SIM_IO_DECL( 2, 10 )
   SIM_IO_DECL( 2, 11 )
   SIM_IO_DECL( 3, 0 )
   SIM_IO_DECL( 3, 1 )
   SIM_IO_DECL( 3, 2 )
   SIM_IO_DECL( 3, 3 )
   SIM_IO_DECL( 4, 0 )
   SIM_IO_DECL( 4, 1 )
   SIM_IO_DECL( 4, 2 )
   SIM_IO_DECL( 4, 3 )
   SIM_IO_DECL( 5, 0 )
   SIM_IO_DECL( 5, 1 )
   SIM_IO_DECL( 5, 2 )
   SIM_IO_DECL( 5, 3 )
   SIM_IO_DECL( 6, 0 )
   SIM_IO_DECL( 6, 1 )
   SIM_IO_DECL( 6, 2 )
   SIM_IO_DECL( 6, 3 )
   SIM_IO_DECL( 7, 0 )
   SIM_IO_DECL( 7, 1 )
   SIM_IO_DECL( 7, 2 )
   SIM_IO_DECL( 7, 3 )
   SIM_IO_DECL( 8, 0 )
   SIM_IO_DECL( 8, 1 )
   SIM_IO_DECL( 8, 2 )
   SIM_IO_DECL( 8, 3 )
   SIM_IO_DECL( 9, 0 )
   SIM_IO_DECL( 9, 1 )
   SIM_IO_DECL( 9, 2 )
   SIM_IO_DECL( 9, 3 )
   SIM_IO_DECL( 10, 0 )
   SIM_IO_DECL( 10, 1 )
   SIM_IO_DECL( 10, 2 )
   SIM_IO_DECL( 10, 3 )
   SIM_IO_DECL( 11, 0 )
   SIM_IO_DECL( 11, 1 )
   SIM_IO_DECL( 11, 2 )
   SIM_IO_DECL( 11, 3 )
#undef SIM_IO_DECL
}  // namespace sim
