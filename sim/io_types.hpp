#pragma once
#include <tao/pegtl.hpp>

#include "sim.hpp"

namespace sim
{
   using io_mem_eager = pegtl::memory_input< pegtl::tracking_mode::eager, mem_eol, std::string >;
   using io_mem_lazy = pegtl::memory_input< pegtl::tracking_mode::lazy, mem_eol, std::string >;
   using io_cstream = pegtl::cstream_input< mem_eol, 64 >;
   using io_istream = pegtl::istream_input< mem_eol, 64 >;

   // defined in io_unit.cpp, one explicit specialisation per ( program, input type )
   template< int Prog, typename In >
   bool io_parse( In& in, sim_state& root );

   template<> bool io_parse< 1, io_mem_eager >( io_mem_eager&, sim_state& );
   template<> bool io_parse< 1, io_mem_lazy >( io_mem_lazy&, sim_state& );
   template<> bool io_parse< 1, io_cstream >( io_cstream&, sim_state& );
   template<> bool io_parse< 1, io_istream >( io_istream&, sim_state& );
   template<> bool io_parse< 2, io_mem_eager >( io_mem_eager&, sim_state& );
   template<> bool io_parse< 2, io_mem_lazy >( io_mem_lazy&, sim_state& );
   template<> bool io_parse< 2, io_cstream >( io_cstream&, sim_state& );
   template<> bool io_parse< 2, io_istream >( io_istream&, sim_state& );
}  // namespace sim
