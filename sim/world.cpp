// Non-template part of the simulated world.
#include <cstdio>
#include <cstdlib>
#include <exception>
#include <filesystem>
#include <new>
#include <system_error>

#include <tao/pegtl.hpp>

#include "sim.hpp"

namespace sim
{
   World W;
   std::vector< RuleInfo > g_rules;
   BufCtx g_buf;

   namespace
   {
      struct ClassName
      {
         const char* ident;
         RC cls;
      };

      const ClassName class_names[] = {
         { "node", RC::NODE },
         { "kid", RC::KID },
         { "mref", RC::KID },
         { "mini", RC::MINI },
         { "mkid", RC::MKID },
         { "atoms", RC::ATOM },
         { "matoms", RC::ATOM },
         { "at", RC::AT },
         { "not_at", RC::NOT_AT },
         { "try_catch_return_false", RC::TC_RF_PE },
         { "try_catch_any_return_false", RC::TC_RF_ANY },
         { "try_catch_std_return_false", RC::TC_RF_STD },
         { "try_catch_type_return_false", RC::TC_RF_TYPE },
         { "try_catch_raise_nested", RC::TC_RN_PE },
         { "try_catch_any_raise_nested", RC::TC_RN_ANY },
         { "try_catch_std_raise_nested", RC::TC_RN_STD },
         { "try_catch_type_raise_nested", RC::TC_RN_TYPE },
         { "must", RC::MUST },
         { "raise", RC::RAISE },
         { "raise_message", RC::RAISE },
         { "enable", RC::ENABLE },
         { "disable", RC::DISABLE },
         { "state", RC::STATE },
         { "action", RC::ACTION },
         { "control", RC::CONTROL },
         { "w_cs", RC::W_CHANGE_STATE },
         { "w_css", RC::W_CHANGE_STATES },
         { "mw_cs", RC::W_CHANGE_STATE },
         { "mw_da", RC::W_DISABLE_ACTION },
         { "mw_ca", RC::W_CHANGE_ACTION },
         { "mw_cas", RC::W_CHANGE_ACTION_STATE },
         { "mw_cass", RC::W_CHANGE_ACTION_STATES },
         { "mw_cc", RC::W_CHANGE_CONTROL },
         { "w_ea", RC::W_ENABLE_ACTION },
         { "w_da", RC::W_DISABLE_ACTION },
         { "w_lb", RC::W_LIMIT_BYTES },
         { "w_ld", RC::W_LIMIT_DEPTH },
         { "w_cb", RC::W_CHECK_BYTES },
         { "di_any", RC::W_DISCARD },
         { "di_ok", RC::W_DISCARD },
         { "di_fail", RC::W_DISCARD },
         { "if_apply", RC::IF_APPLY },
         { "unsigned_rule", RC::INTEGER },
         { "signed_rule", RC::INTEGER },
         { "maximum_rule", RC::INTEGER },
         { "unsigned_rule_with_action", RC::INTEGER },
         { "signed_rule_with_action", RC::INTEGER },
         { "maximum_rule_with_action", RC::INTEGER },
         { "hk_ca", RC::W_CONTROL_ACTION },
         { "hk_safe", RC::TC_RF_ANY },
         { "n_call", RC::TC_RN_STD },     // the parse_nested call inside n_inc's action: std::exception -> nested parse_error at the ambient position
         { "n_safe_pe", RC::TC_RF_PE },
         { "n_safe_std", RC::TC_RF_STD },
         { "n_renest", RC::TC_RN_PE },
         { "w_as", RC::W_CHANGE_STATE },
         { "mi_raise_a", RC::MI_RAISE },
         { "mi_raise_d", RC::MI_RAISE },
         { "mi_msg_b", RC::MI_MSG },
         { "top0", RC::TOP },
         { "top1", RC::TOP },
         { "top2", RC::TOP },
         { "top3", RC::TOP },
         { "top4", RC::TOP },
         { "top5", RC::TOP },
      };

      // "tao::pegtl::internal::must<sim::kid<1, 0> >" -> ident "must", p0/p1 = first ints inside <>
      void parse_name( RuleInfo& ri )
      {
         const std::string& n = ri.name;
         const std::size_t lt = n.find( '<' );
         const std::string head = n.substr( 0, lt );
         const std::size_t cc = head.rfind( "::" );
         const std::string ident = ( cc == std::string::npos ) ? head : head.substr( cc + 2 );
         const bool internal = head.find( "::internal::" ) != std::string::npos;
         for( const auto& c : class_names ) {
            if( ident == c.ident ) {
               ri.cls = c.cls;
               break;
            }
         }
         if( internal && ri.cls != RC::MUST && ri.cls != RC::AT && ri.cls != RC::NOT_AT && ri.cls != RC::RAISE ) {
            // internal::try_catch_* etc. carry the exception type as first parameter; only the
            // public forms are used by the wired grammar, anything else stays unclassified
            if( ri.cls >= RC::TC_RF_PE && ri.cls <= RC::TC_RN_TYPE ) {
               ri.cls = RC::OTHER;
            }
         }
         if( ri.cls == RC::CONTROL ) {
            // control< C, Rule >: the control family that C records as (ctl2: 2, the adaptor controls of the hooks program: 3)
            ri.p0 = ( n.find( "adapt_" ) != std::string::npos ) ? 3 : 2;
            return;
         }
         if( lt != std::string::npos && ( ri.cls != RC::OTHER ) ) {
            // leading integer parameters, e.g. "sim::w_lb<1, 3>"
            std::size_t i = lt + 1;
            int* out[ 2 ] = { &ri.p0, &ri.p1 };
            for( int k = 0; k < 2 && i < n.size(); ++k ) {
               while( i < n.size() && n[ i ] == ' ' ) {
                  ++i;
               }
               if( i >= n.size() || n[ i ] < '0' || n[ i ] > '9' ) {
                  break;
               }
               int v = 0;
               while( i < n.size() && n[ i ] >= '0' && n[ i ] <= '9' ) {
                  v = v * 10 + ( n[ i ] - '0' );
                  ++i;
               }
               *out[ k ] = v;
               if( i < n.size() && n[ i ] == ',' ) {
                  ++i;
               }
               else {
                  break;
               }
            }
         }
      }
   }  // namespace

   std::uint32_t register_rule( std::string_view name, bool enable, int sel )
   {
      Suspend sp;
      RuleInfo ri;
      ri.name = std::string( name );
      ri.namehash = fnv1a( name.data(), name.size() );
      ri.enable = enable;
      ri.sel = sel;
      parse_name( ri );
      if( g_rules.empty() ) {
         g_rules.emplace_back();  // index 0 = "no rule"
         g_rules.back().name = "-";
      }
      g_rules.push_back( std::move( ri ) );
      return static_cast< std::uint32_t >( g_rules.size() - 1 );
   }

   void log_event( Ev k, std::uint32_t rule, std::uint8_t flags, std::uint8_t afam, std::uint8_t cfam, const Snap& s, std::uint32_t sid, std::uint64_t x, std::uint32_t y )
   {
      if( W.h.size() == W.h.capacity() ) {
         Suspend sp;
         W.h.reserve( W.h.capacity() ? W.h.capacity() * 2 : 65536 );
      }
      Event& e = W.push( k );
      e.flags = flags | s.flags;
      e.afam = afam;
      e.cfam = cfam;
      e.rule = rule;
      e.pos = s.pos;
      e.byte = s.byte;
      e.line = s.line;
      e.col = s.col;
      e.endoff = s.endoff;
      e.depth = s.depth;
      e.sid = sid;
      e.x = x;
      e.y = y;
      if( ( e.flags & F_NOPOS ) == 0 && s.pos != NOPOS ) {
         W.last_end = s.pos;
      }
   }

   void log_action( Ev k, std::uint32_t rule, std::uint8_t fam, const Snap& begin, std::uint32_t e, std::uint32_t chash, std::uint32_t sid, bool result )
   {
      Snap s = begin;
      if( k == Ev::X_APPLY ) {
         // helper action classes are identified by a small id, not by a registered rule
         s.depth = rule;
         rule = 0;
      }
      log_event( k, rule, ( result ? F_RESULT : 0 ), fam, 0, s, sid, ( std::uint64_t( begin.byte ) << 32 ) | e, chash );
   }

   void log_fault( Site s, std::uint8_t cls, std::uint32_t id, const Snap& sn )
   {
      ++W.fault_fired;
      log_event( Ev::FAULT, 0, 0, 0, 0, sn, 0, ( std::uint64_t( s ) << 8 ) | cls, id );
   }

   const char* g_buf_base() noexcept
   {
      return g_buf.base;
   }

   const char* g_buf_end() noexcept
   {
      return g_buf.end;
   }

   void soft_violation( std::uint32_t what, std::uint64_t value, const Snap& s )
   {
      log_event( Ev::SOFT, 0, 0, 0, 0, s, 0, what, static_cast< std::uint32_t >( value ) );
   }

   void on_enter()
   {
      ++W.open_depth;
      if( W.open_depth > W.max_open_depth ) {
         W.max_open_depth = W.open_depth;
      }
      if( W.h.size() > W.fuel_events || W.open_depth > W.fuel_depth ) {
         W.aborted = true;
         throw sim_abort();
      }
   }

   void on_leave() noexcept
   {
      --W.open_depth;
   }

   void throw_simple( std::uint8_t cls, std::uint32_t id )
   {
      switch( cls ) {
         case EXC_FAULT:
            throw sim_fault{ id };
         case EXC_STD: {
            Suspend sp;
            throw sim_std_fault( id );
         }
         case EXC_INT:
            throw static_cast< int >( id );
         case EXC_IO:
            throw sim_io_error{ id };
         case EXC_BAD_ALLOC:
            throw std::bad_alloc();
         default:
            throw sim_fault{ id };
      }
   }

   // ------------------------------------------------------------ rematch sub-input windows
   namespace
   {
      int g_sub_depth = 0;
      const char* g_sub_from = nullptr;
      std::size_t g_sub_len = 0;
   }  // namespace

   void sub_window_enter( const char* sub_end ) noexcept
   {
      if( g_sub_depth++ != 0 || !W.in_library ) {
         return;  // nested sub-inputs only shrink further; the outermost poisoning stays
      }
      const char* hi = nullptr;
      if( g_buf.base != nullptr && sub_end >= g_buf.base && sub_end <= g_buf.base + g_buf.capacity ) {
         hi = g_buf.end;
      }
      else if( sub_end >= W.arena && sub_end <= W.arena + W.xlen ) {
         hi = W.arena + ( W.mem_end_off <= W.xlen ? W.mem_end_off : W.xlen );  // a byte limit may have lowered the end
      }
      g_sub_from = nullptr;
      if( hi != nullptr && sub_end < hi ) {
         g_sub_from = sub_end;
         g_sub_len = static_cast< std::size_t >( hi - sub_end );
         SIM_POISON( g_sub_from, g_sub_len );
      }
   }

   void sub_window_leave() noexcept
   {
      if( --g_sub_depth != 0 ) {
         return;
      }
      if( g_sub_from != nullptr ) {
         SIM_UNPOISON( g_sub_from, g_sub_len );
         g_sub_from = nullptr;
      }
   }

   // ------------------------------------------------------------ reader
   std::size_t sim_read( char* buffer, std::size_t length )
   {
      // reader contract: the library may only ask for bytes inside its own buffer
      Snap s;
      s.flags = F_NOPOS;
      const bool inside = ( g_buf.base != nullptr ) && ( buffer >= g_buf.base ) && ( buffer + length <= g_buf.base + g_buf.capacity );
      if( !inside ) {
         soft_violation( 6, length, s );
         return 0;
      }
      std::uint32_t id = 0;
      const std::uint8_t c = W.fault_at( SITE_READER, id );
      if( c != EXC_NONE ) {
         log_fault( SITE_READER, c, id, s );
         throw_simple( c, id );
      }
      const std::size_t remaining = W.xlen - W.delivered;
      std::size_t n = length;
      if( W.read_idx < W.reads.size() ) {
         n = W.reads[ W.read_idx++ ];
         if( n == 0 ) {
            n = 1;
         }
      }
      if( n > length ) {
         n = length;
      }
      if( n > remaining ) {
         n = remaining;
      }
      if( remaining == 0 ) {
         ++W.reads_after_eof;
         // bounded progress: a require() that keeps polling the reader after it reported end of input never returns.
         // Two reader calls at end of input with no other event in between belong to the same require() call.
         if( !W.h.empty() && W.h.back().kind == Ev::READ && static_cast< std::uint32_t >( W.h.back().x ) == 0 ) {
            if( ++W.eof_polls > 1000 ) {
               std::fputs( "pegsim: the input keeps calling its reader after end of input (no progress)\n", stderr );
               std::abort();
            }
         }
         else {
            W.eof_polls = 0;
         }
      }
      if( n > 0 ) {
         SIM_UNPOISON( buffer, n );
         std::memcpy( buffer, W.xdata + W.delivered, n );
         W.delivered += n;
         g_buf.end = buffer + n;
      }
      log_event( Ev::READ, 0, 0, 0, 0, s, 0, ( std::uint64_t( length ) << 32 ) | n, static_cast< std::uint32_t >( buffer - g_buf.base ) );
      return n;
   }

   // ------------------------------------------------------------ exceptions
   namespace
   {
      std::uint64_t exc_hash( const ExcInfo& e )
      {
         std::uint64_t h = hash_u64( 0xcbf29ce484222325ULL, e.cls );
         h = hash_u64( h, e.id );
         if( e.cls != EXC_SYSTEM ) {  // what() of filesystem errors names the per-process temp file
            h = fnv1a( e.what.data(), e.what.size(), h );
         }
         h = hash_u64( h, e.byte );
         h = hash_u64( h, e.line );
         h = hash_u64( h, e.col );
         h = fnv1a( e.source.data(), e.source.size(), h );
         h = hash_u64( h, e.has_nested ? e.nested_hash : 0 );
         return h;
      }

      ExcInfo classify( const std::exception_ptr& p, int level );

      void fill_nested( ExcInfo& out, const std::exception& e, int level )
      {
         if( level > 400 ) {
            return;
         }
         if( const auto* ne = dynamic_cast< const std::nested_exception* >( &e ) ) {
            if( ne->nested_ptr() ) {
               const ExcInfo in = classify( ne->nested_ptr(), level + 1 );
               out.has_nested = true;
               out.nested_hash = in.hash;
            }
         }
      }

      ExcInfo classify( const std::exception_ptr& p, int level )
      {
         ExcInfo out;
         try {
            std::rethrow_exception( p );
         }
         catch( const sim_fault& f ) {
            out.cls = EXC_FAULT;
            out.id = f.id;
         }
         catch( const sim_io_error& f ) {
            out.cls = EXC_IO;
            out.id = f.id;
         }
         catch( const sim_abort& ) {
            out.cls = EXC_ABORT;
         }
         catch( const int& i ) {
            out.cls = EXC_INT;
            out.id = static_cast< std::uint32_t >( i );
         }
         catch( const sim_std_fault& f ) {
            out.cls = EXC_STD;
            out.id = f.id;
            out.what = f.what();
            fill_nested( out, f, level );
         }
         catch( const tao::pegtl::parse_error& e ) {
            out.what = e.what();
            out.cls = ( out.what.find( ": sim#" ) != std::string::npos ) ? EXC_PE : EXC_PE_LIB;
            out.byte = static_cast< std::uint32_t >( e.position_object().byte );
            out.line = static_cast< std::uint32_t >( e.position_object().line );
            out.col = static_cast< std::uint32_t >( e.position_object().column );
            out.source = e.position_object().source;
            out.message = std::string( e.message() );
            out.position_string = std::string( e.position_string() );
            fill_nested( out, e, level );
         }
         catch( const std::bad_alloc& ) {
            out.cls = EXC_BAD_ALLOC;
         }
         catch( const std::overflow_error& e ) {
            out.cls = EXC_OVERFLOW;
            out.what = e.what();
         }
         catch( const std::system_error& e ) {
            out.cls = EXC_SYSTEM;
            out.what = e.what();
            out.id = static_cast< std::uint32_t >( e.code().value() );
         }
         catch( const std::exception& e ) {
            out.cls = EXC_OTHER_STD;
            out.what = e.what();
            fill_nested( out, e, level );
         }
         catch( ... ) {
            out.cls = EXC_UNKNOWN;
         }
         out.hash = exc_hash( out );
         return out;
      }
   }  // namespace

   std::uint32_t classify_current_exception()
   {
      Suspend sp;
      ExcInfo e = classify( std::current_exception(), 0 );
      // the same exception object propagating through many frames: reuse the entry
      if( !W.excs.empty() && W.excs.back().hash == e.hash ) {
         return static_cast< std::uint32_t >( W.excs.size() - 1 );
      }
      W.excs.push_back( std::move( e ) );
      return static_cast< std::uint32_t >( W.excs.size() - 1 );
   }

   // ------------------------------------------------------------ history fingerprint
   std::uint64_t history_hash( const std::vector< Event >& h, const std::vector< ExcInfo >& ex )
   {
      std::uint64_t v = 0xcbf29ce484222325ULL;
      for( const Event& e : h ) {
         std::uint64_t a = ( std::uint64_t( e.kind ) << 56 ) | ( std::uint64_t( e.flags ) << 48 ) | ( std::uint64_t( e.afam ) << 40 ) | ( std::uint64_t( e.cfam ) << 32 ) | e.pos;
         v = hash_u64( v, a );
         v = hash_u64( v, g_rules.empty() ? 0 : g_rules[ e.rule < g_rules.size() ? e.rule : 0 ].namehash );
         v = hash_u64( v, ( std::uint64_t( e.byte ) << 32 ) | e.line );
         v = hash_u64( v, ( std::uint64_t( e.col ) << 32 ) | e.endoff );
         v = hash_u64( v, ( std::uint64_t( e.depth ) << 32 ) | e.sid );
         if( e.kind == Ev::EXC || ( e.kind == Ev::TOP_END && ( e.flags & F_EXC ) ) ) {
            v = hash_u64( v, e.x < ex.size() ? ex[ e.x ].hash : 0 );
         }
         else {
            v = hash_u64( v, e.x );
         }
         v = hash_u64( v, e.y );
      }
      return v;
   }

   std::string event_to_string( const Event& e, const std::vector< ExcInfo >& ex )
   {
      char buf[ 512 ];
      const char* rn = ( e.rule < g_rules.size() ) ? g_rules[ e.rule ].name.c_str() : "?";
      std::snprintf( buf, sizeof( buf ), "%-12s %s%s%s%s pos=%d byte=%d l=%u c=%u end=%d d=%u sid=%u af=%u cf=%u x=%llx y=%x %s",
                     ev_name( e.kind ),
                     ( e.flags & F_ACTION ) ? "A" : "-",
                     ( e.flags & F_REQUIRED ) ? "R" : "-",
                     ( e.flags & F_RESULT ) ? "T" : "-",
                     ( e.flags & F_SUB ) ? "s" : "-",
                     int( e.pos ), int( e.byte ), e.line, e.col, int( e.endoff ), e.depth, e.sid, e.afam, e.cfam,
                     static_cast< unsigned long long >( e.x ), e.y, rn );
      std::string out = buf;
      if( ( e.kind == Ev::EXC || ( e.kind == Ev::TOP_END && ( e.flags & F_EXC ) ) ) && e.x < ex.size() ) {
         const ExcInfo& x = ex[ e.x ];
         out += " exc{cls=" + std::to_string( x.cls ) + " id=" + std::to_string( x.id ) + " what='" + x.what + "'" + ( x.has_nested ? " nested" : "" ) + "}";
      }
      return out;
   }

}  // namespace sim
