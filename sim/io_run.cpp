// Runner of the I/O jobs: builds the stock PEGTL input class named by the job over the simulated
// environment and parses one of the fixed grammars with the recording control / actions.
#include <tao/pegtl.hpp>

#include <cstring>
#include <filesystem>
#include <string_view>
#include <istream>

#include "io.hpp"
#include "io_types.hpp"

namespace sim
{
   extern char g_arena[];

   namespace
   {
      template< int Prog, typename In >
      void run_with( In& in, RunResult& out )
      {
         (void)out;
         sim_state root;
         log_event( Ev::TOP_BEGIN, 0, 0, 0, 0, snap( in ), root.id );
         bool r = false;
         bool threw = false;
         std::uint32_t xi = 0;
         try {
            r = io_parse< Prog, In >( in, root );
         }
         catch( ... ) {
            threw = true;
            xi = classify_current_exception();
         }
         log_event( Ev::TOP_END, 0, ( r ? F_RESULT : 0 ) | ( threw ? F_EXC : 0 ), 0, 0, snap( in ), root.id, xi );
      }

      template< typename In >
      void run_prog( int prog, In& in, RunResult& out )
      {
         switch( prog ) {
            case 1: run_with< 1 >( in, out ); break;
            case 2: run_with< 2 >( in, out ); break;
            case 3: run_with< 3 >( in, out ); break;
            case 4: run_with< 4 >( in, out ); break;
            case 5: run_with< 5 >( in, out ); break;
            case 6: run_with< 6 >( in, out ); break;
            case 8: run_with< 8 >( in, out ); break;
            case 9: run_with< 9 >( in, out ); break;
            case 10: run_with< 10 >( in, out ); break;
            case 11: run_with< 11 >( in, out ); break;
            default: run_with< 7 >( in, out ); break;
         }
      }

      template< int K >
      void run_eol_k( bool buffer, const Case& c, RunResult& out )
      {
         if( buffer ) {
            typename io_input< K + 4 >::type in( "sim", c.maximum );
            g_buf.base = const_cast< char* >( in.current() );
            g_buf.capacity = in.buffer_capacity();
            g_buf.shifted = 0;
            run_with< 2 >( in, out );
            g_buf.base = nullptr;
         }
         else {
            typename io_input< K >::type in( W.arena, W.arena + W.xlen, "sim" );
            run_with< 2 >( in, out );
         }
      }

      void run_eol( int io_class, const Case& c, RunResult& out )
      {
         const bool buffer = ( io_class <= IO_BUF_LF );
         switch( ( io_class - IO_BUF_CR ) % 4 ) {
            case 0: run_eol_k< 4 >( buffer, c, out ); break;
            case 1: run_eol_k< 5 >( buffer, c, out ); break;
            case 2: run_eol_k< 6 >( buffer, c, out ); break;
            default: run_eol_k< 7 >( buffer, c, out ); break;
         }
      }

      // exception while the input object itself is built (open / read / mmap failures)
      void ctor_failed( RunResult& out )
      {
         (void)out;
         Snap s;
         s.flags = F_NOPOS;
         const std::uint32_t xi = classify_current_exception();
         log_event( Ev::TOP_BEGIN, 0, s.flags, 0, 0, s, 0 );
         log_event( Ev::TOP_END, 0, F_EXC | s.flags, 0, 0, s, 0, xi );
      }
   }  // namespace

   void tracer_check( const std::string& printed, std::size_t stack_size, std::size_t count, bool complete, const Snap& at )
   {
      Suspend sp;
      // what the tracer printed, one token per hook it saw
      std::string got;
      std::size_t i = 0;
      while( i < printed.size() ) {
         std::size_t e = printed.find( '\n', i );
         if( e == std::string::npos ) {
            e = printed.size();
         }
         std::size_t b = i;
         if( printed[ b ] == '#' ) {
            got += 'S';
         }
         else {
            while( b < e && printed[ b ] == ' ' ) {
               ++b;
            }
            const std::string_view w( printed.data() + b, e - b );
            auto starts = [ & ]( const char* k ) { return w.compare( 0, std::strlen( k ), k ) == 0; };
            if( starts( "success" ) ) {
               got += 's';
            }
            else if( starts( "failure" ) ) {
               got += 'f';
            }
            else if( starts( "unwind" ) ) {
               got += 'u';
            }
            else if( starts( "apply0" ) ) {
               got += '0';
            }
            else if( starts( "apply" ) ) {
               got += 'a';
            }
            else if( starts( "raise_nested" ) ) {
               got += 'n';
            }
            else if( starts( "raise" ) ) {
               got += 'r';
            }
         }
         i = e + 1;
      }
      // what it must have seen according to the recorded history
      std::string want;
      std::size_t starts_seen = 0;
      for( const Event& e : W.h ) {
         const bool enabled = e.rule < g_rules.size() && g_rules[ e.rule ].enable;
         switch( e.kind ) {
            case Ev::START: want += 'S'; ++starts_seen; break;
            case Ev::SUCCESS: want += 's'; break;
            case Ev::FAILURE: want += 'f'; break;
            case Ev::UNWIND: want += 'u'; break;
            case Ev::APPLY: want += 'a'; break;
            case Ev::APPLY0: want += '0'; break;
            case Ev::RAISE:
               if( complete || enabled ) {
                  want += 'r';
               }
               break;
            case Ev::RAISE_NESTED:
               if( complete || enabled ) {
                  want += 'n';
               }
               break;
            case Ev::ENTER:
               if( complete && !enabled ) {
                  want += 'S';
                  ++starts_seen;
               }
               break;
            case Ev::EXIT:
               if( complete && !enabled ) {
                  want += ( e.flags & F_RESULT ) ? 's' : 'f';
               }
               break;
            case Ev::EXC:
               if( complete && !enabled ) {
                  want += 'u';
               }
               break;
            default:
               break;
         }
      }
      if( got != want ) {
         std::size_t k = 0;
         while( k < got.size() && k < want.size() && got[ k ] == want[ k ] ) {
            ++k;
         }
         soft_violation( 9, k, at );
      }
      else if( stack_size != 0 || count != starts_seen ) {
         soft_violation( 10, ( static_cast< std::uint64_t >( stack_size < 4095 ? stack_size : 4095 ) << 20 ) | ( count & 0xfffffu ), at );
      }
   }

   RunResult run_io( int io_class, const Case& c )
   {
      RunResult out;
      W.reset_run();
      W.faults = c.faults;
      W.reads = c.reads;
      W.vetoseed = c.vetoseed;
      W.short_by = c.short_by;
      W.fuel_events = 600000;
      W.xlen = c.input.size();
      if( W.xlen > ARENA - 2 * GUARD ) {
         W.xlen = ARENA - 2 * GUARD;
      }
      W.xdata = c.input.data();
      SIM_UNPOISON( g_arena, ARENA );
      W.arena = g_arena + GUARD;
      std::memcpy( g_arena + GUARD, c.input.data(), W.xlen );
      SIM_POISON( g_arena, ARENA );
      SIM_UNPOISON( g_arena + GUARD, W.xlen );
      const std::string bytes( c.input.data(), W.xlen );
      const int prog = static_cast< int >( c.prog );
      W.io_active = true;
      try {
         switch( io_class ) {
            case IO_MEM: {
               io_mem_eager in( W.arena, W.arena + W.xlen, "sim" );
               run_prog( prog, in, out );
               break;
            }
            case IO_LAZY: {
               io_mem_lazy in( W.arena, W.arena + W.xlen, "sim" );
               run_prog( prog, in, out );
               break;
            }
            case IO_STRING: {
               pegtl::string_input< pegtl::tracking_mode::eager, mem_eol > in( std::string( bytes ), "sim" );
               run_prog( prog, static_cast< io_mem_eager& >( in ), out );
               break;
            }
            case IO_ARGV: {
               std::string arg = bytes;  // NUL terminated copy; the generator keeps NUL out of these inputs
               char prog_name[] = "pegsim";
               char* argv[] = { prog_name, arg.data(), nullptr };
               pegtl::argv_input< pegtl::tracking_mode::eager, mem_eol > in( argv, 1, "sim" );
               run_prog( prog, static_cast< io_mem_eager& >( in ), out );
               break;
            }
            case IO_READ: {
               const std::string path = temp_file_with( bytes );
               pegtl::read_input< pegtl::tracking_mode::eager, mem_eol > in( std::filesystem::path( path ), "sim" );
               run_prog( prog, static_cast< io_mem_eager& >( in ), out );
               break;
            }
            case IO_READ_FP: {
               std::FILE* f = make_cookie_file( true );
               pegtl::read_input< pegtl::tracking_mode::eager, mem_eol > in( f, std::filesystem::path( "cookie" ), "sim" );
               run_prog( prog, static_cast< io_mem_eager& >( in ), out );
               break;
            }
            case IO_MMAP: {
               const std::string path = temp_file_with( bytes );
               pegtl::mmap_input< pegtl::tracking_mode::eager, mem_eol > in( std::filesystem::path( path ), "sim" );
               run_prog( prog, static_cast< io_mem_eager& >( in ), out );
               break;
            }
            case IO_FILE: {
               const std::string path = temp_file_with( bytes );
               pegtl::file_input< pegtl::tracking_mode::lazy, mem_eol > in( std::filesystem::path( path ), "sim" );
               run_prog( prog, static_cast< io_mem_lazy& >( in ), out );
               break;
            }
            case IO_CSTREAM: {
               std::FILE* f = make_cookie_file( false );
               {
                  io_cstream in( f, c.maximum, "sim" );
                  run_prog( prog, in, out );
               }
               std::fclose( f );
               break;
            }
            case IO_BUF_CR:
            case IO_BUF_CRLF:
            case IO_BUF_CR_CRLF:
            case IO_BUF_LF:
            case IO_MEM_CR:
            case IO_MEM_CRLF:
            case IO_MEM_CR_CRLF:
            case IO_MEM_LF:
               run_eol( io_class, c, out );
               break;
            default: {
               sim_streambuf sb;
               std::istream is( &sb );
               io_istream in( is, c.maximum, "sim" );
               run_prog( prog, in, out );
               break;
            }
         }
      }
      catch( ... ) {
         ctor_failed( out );
      }
      W.io_active = false;
      SIM_UNPOISON( g_arena, ARENA );
      out.h.assign( W.h.begin(), W.h.end() );  // W.h keeps its (large) buffer across runs
      W.h.clear();
      out.excs.swap( W.excs );
      out.aborted = W.aborted;
      out.asan_hits = W.asan_hits;
      out.faults_fired = W.fault_fired;
      out.max_depth = W.max_open_depth;
      out.hash = history_hash( out.h, out.excs );
      W.fuel_events = 20000;
      W.short_by = 0;
      return out;
   }

}  // namespace sim
