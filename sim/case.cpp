// Case serialisation (replay files) and dispatch to the compiled sets.
#include "case.hpp"

#include <cstdio>
#include <cstdlib>
#include <sstream>

#include "optable.hpp"
#ifdef HAVE_IO
#include "io.hpp"
#endif

namespace sim
{
   alignas( 64 ) char g_arena[ ARENA ];

   RunResult run_case( SetId set, const Case& c )
   {
#ifdef HAVE_IO
      if( int( set ) >= IO_FIRST && int( set ) <= IO_LAST ) {
         return run_io( int( set ), c );
      }
#endif
      switch( set ) {
#ifdef HAVE_S1
         case SET_MEM: return run_set1( c );
#endif
#ifdef HAVE_S2
         case SET_BUF: return run_set2( c );
#endif
#ifdef HAVE_S3
         case SET_LAZY: return run_set3( c );
#endif
#ifdef HAVE_S4
         case SET_TREE: return run_set4( c );
#endif
#ifdef HAVE_S5
         case SET_COV: return run_set5( c );
#endif
#ifdef HAVE_S9
         case SET_TREE_UW: return run_set9( c );
#endif
#ifdef HAVE_S7
         case SET_BUF1: return run_set7( c );
#endif
#ifdef HAVE_S8
         case SET_BUF64: return run_set8( c );
#endif
         default:
            std::fprintf( stderr, "set %d not compiled in\n", int( set ) );
            std::abort();
      }
   }

   bool set_available( SetId set )
   {
#ifdef HAVE_IO
      if( int( set ) >= IO_FIRST && int( set ) <= IO_LAST ) {
         return true;
      }
#endif
      switch( set ) {
#ifdef HAVE_S1
         case SET_MEM: return true;
#endif
#ifdef HAVE_S2
         case SET_BUF: return true;
#endif
#ifdef HAVE_S3
         case SET_LAZY: return true;
#endif
#ifdef HAVE_S4
         case SET_TREE: return true;
#endif
#ifdef HAVE_S5
         case SET_COV: return true;
#endif
#ifdef HAVE_S9
         case SET_TREE_UW: return true;
#endif
#ifdef HAVE_S7
         case SET_BUF1: return true;
#endif
#ifdef HAVE_S8
         case SET_BUF64: return true;
#endif
         default: return false;
      }
   }

   unsigned set_capabilities( SetId set )
   {
      switch( set ) {
         case SET_MEM: return CAP_MEMORY | CAP_SETEND | CAP_DEPTH | CAP_COLUMN | CAP_STATE | CAP_PLAINCTL | CAP_REMATCH | CAP_CTLSWITCH | CAP_PRIVSTATE;
         case SET_BUF:
         case SET_BUF1:
         case SET_BUF64: return CAP_DEPTH | CAP_COLUMN | CAP_STATE | CAP_PLAINCTL | CAP_REMATCH | CAP_CTLSWITCH | CAP_PRIVSTATE;
         case SET_LAZY: return CAP_MEMORY | CAP_SETEND | CAP_DEPTH | CAP_STATE | CAP_PLAINCTL | CAP_CTLSWITCH | CAP_PRIVSTATE;
         case SET_TREE: return CAP_MEMORY | CAP_SETEND | CAP_DEPTH | CAP_COLUMN | CAP_PRIVSTATE | CAP_TREEOPS;
         case SET_TREE_UW: return CAP_MEMORY | CAP_SETEND | CAP_DEPTH | CAP_PRIVSTATE | CAP_TREEOPS;  // lazy tracking: no column()
         case SET_COV: return CAP_MEMORY | CAP_SETEND | CAP_DEPTH | CAP_COLUMN;
         default: return 0;
      }
   }

   // ------------------------------------------------------------ text form
   static std::string hex( const std::string& s )
   {
      static const char* d = "0123456789abcdef";
      std::string o;
      for( unsigned char c : s ) {
         o += d[ c >> 4 ];
         o += d[ c & 15 ];
      }
      return o;
   }

   static bool unhex( const std::string& h, std::string& out )
   {
      out.clear();
      if( h.size() % 2 ) {
         return false;
      }
      auto v = []( char c ) -> int {
         if( c >= '0' && c <= '9' ) {
            return c - '0';
         }
         if( c >= 'a' && c <= 'f' ) {
            return c - 'a' + 10;
         }
         return -1;
      };
      for( std::size_t i = 0; i < h.size(); i += 2 ) {
         const int a = v( h[ i ] ), b = v( h[ i + 1 ] );
         if( a < 0 || b < 0 ) {
            return false;
         }
         out += static_cast< char >( a * 16 + b );
      }
      return true;
   }

   std::string case_to_text( const Case& c )
   {
      std::ostringstream o;
      o << "prog " << c.prog << "\n";
      o << "shape " << int( c.shape ) << "\n";
      o << "topA " << int( c.topA ) << "\n";
      o << "topM " << int( c.topM ) << "\n";
      o << "vetoseed " << c.vetoseed << "\n";
      o << "maximum " << c.maximum << "\n";
      if( c.short_by != 0 ) {
         o << "short_by " << c.short_by << "\n";
      }
      o << "input " << hex( c.input ) << "\n";
      for( int i = 0; i < NODES; ++i ) {
         const NodeRow& r = c.g.n[ i ];
         o << "node " << i << " " << op_name( r.op ) << " " << int( r.kid[ 0 ] ) << " " << int( r.kid[ 1 ] ) << " " << int( r.kid[ 2 ] ) << " " << atom_name( r.atom ) << "\n";
      }
      for( int i = 0; i < MINIS; ++i ) {
         const NodeRow& r = c.g.m[ i ];
         o << "mini " << i << " " << mop_name( r.op ) << " " << int( r.kid[ 0 ] ) << " " << int( r.kid[ 1 ] ) << " " << int( r.kid[ 2 ] ) << " " << matom_name( r.atom ) << "\n";
      }
      o << "reads";
      for( auto r : c.reads ) {
         o << " " << r;
      }
      o << "\n";
      for( const auto& f : c.faults ) {
         o << "fault " << int( f.site ) << " " << int( f.cls ) << " " << f.k << "\n";
      }
      return o.str();
   }

   bool case_from_text( const std::string& text, Case& c, std::string& err )
   {
      std::istringstream in( text );
      std::string line;
      c = Case();
      while( std::getline( in, line ) ) {
         if( line.empty() || line[ 0 ] == '#' ) {
            continue;
         }
         std::istringstream ls( line );
         std::string key;
         ls >> key;
         if( key == "prog" ) {
            ls >> c.prog;
         }
         else if( key == "shape" ) {
            int v;
            ls >> v;
            c.shape = static_cast< std::uint8_t >( v );
         }
         else if( key == "topA" ) {
            int v;
            ls >> v;
            c.topA = static_cast< std::uint8_t >( v );
         }
         else if( key == "topM" ) {
            int v;
            ls >> v;
            c.topM = static_cast< std::uint8_t >( v );
         }
         else if( key == "vetoseed" ) {
            ls >> c.vetoseed;
         }
         else if( key == "maximum" ) {
            ls >> c.maximum;
         }
         else if( key == "short_by" ) {
            ls >> c.short_by;
         }
         else if( key == "input" ) {
            std::string h;
            ls >> h;
            if( !unhex( h, c.input ) ) {
               err = "bad hex input";
               return false;
            }
         }
         else if( key == "node" || key == "mini" ) {
            int i, k0, k1, k2;
            std::string opn, an;
            ls >> i >> opn >> k0 >> k1 >> k2 >> an;
            NodeRow r;
            r.kid[ 0 ] = static_cast< std::uint8_t >( k0 );
            r.kid[ 1 ] = static_cast< std::uint8_t >( k1 );
            r.kid[ 2 ] = static_cast< std::uint8_t >( k2 );
            if( key == "node" ) {
               const int op = op_by_name( opn ), at = atom_by_name( an );
               if( i < 0 || i >= NODES || op < 0 || at < 0 ) {
                  err = "bad node line: " + line;
                  return false;
               }
               r.op = static_cast< std::uint8_t >( op );
               r.atom = static_cast< std::uint8_t >( at );
               c.g.n[ i ] = r;
            }
            else {
               const int op = mop_by_name( opn ), at = matom_by_name( an );
               if( i < 0 || i >= MINIS || op < 0 || at < 0 ) {
                  err = "bad mini line: " + line;
                  return false;
               }
               r.op = static_cast< std::uint8_t >( op );
               r.atom = static_cast< std::uint8_t >( at );
               c.g.m[ i ] = r;
            }
         }
         else if( key == "reads" ) {
            unsigned v;
            while( ls >> v ) {
               c.reads.push_back( static_cast< std::uint16_t >( v ) );
            }
         }
         else if( key == "fault" ) {
            int s, cl, k;
            ls >> s >> cl >> k;
            FaultOp f;
            f.site = static_cast< std::uint8_t >( s );
            f.cls = static_cast< std::uint8_t >( cl );
            f.k = static_cast< std::uint16_t >( k );
            c.faults.push_back( f );
         }
         // unknown keys (meta information) are ignored
      }
      return true;
   }

}  // namespace sim
