// A "job" is a case plus how it is run and judged; checks (one per property) map run indices to jobs.
#pragma once

#include <string>
#include <vector>

#include "case.hpp"
#include "gen.hpp"
#include "oracle.hpp"

namespace sim
{
   enum JobMode : std::uint8_t
   {
      MODE_SINGLE,     // one run on `set`, history invariants
      MODE_EQUAL,      // reference run on SET_MEM, alternative on `set`, equality + invariants on both
      MODE_UNGUARDED,  // run on SET_MEM, and again with every limit wrapper replaced (C18)
      MODE_TREE,       // parse_tree::parse on SET_TREE
      MODE_COVERAGE,   // coverage() on SET_COV
      MODE_IO,         // fixed grammar (Case::prog) through a stock input class (`set` = IoClass), reference = memory_input
   };

   struct Job
   {
      std::string check;  // property id, e.g. "C07"
      JobMode mode = MODE_SINGLE;
      SetId set = SET_MEM;
      Case c;
      bool with_faults = false;  // which sub-batch the job belongs to (statistics only)
   };

   struct Verdict
   {
      std::vector< Violation > own;      // violations of the job's own property
      std::vector< Violation > foreign;  // violations of other properties seen on the way (not reported by this check)
      Features f;
      std::uint64_t fingerprint = 0;  // history hash(es) of the job
      bool discarded = false;         // fuel exhausted: not judged
      bool spinning = false;          // fuel exhausted while one rule invocation kept attempting sub-rules without moving the cursor
      std::string spin_detail;
      std::uint32_t spin_rule = 0;
      std::uint64_t events = 0, reader_calls = 0, bytes_delivered = 0;
   };

   Job make_job( const std::string& check, std::uint64_t seed, std::uint64_t index, bool thorough );
   Verdict judge( const Job& j );
   bool job_runnable( const Job& j );  // are the sets the job needs compiled into this binary?
   bool set_available( SetId set );

   // run judge() in a forked child: 0 = no violation of `oracle`, 1 = `oracle` violated (judged in the child),
   // 77 = the child was ended by AddressSanitizer, 99 = the child crashed (signal / abort)
   int judge_forked( const Job& j, const std::string& oracle );
   bool is_fatal_oracle( const std::string& oracle );  // violations that end the process: *.poison, *.crash

   std::string job_to_text( const Job& j );
   bool job_from_text( const std::string& text, Job& j, std::string& err );

   // minimise a failing job while the same oracle id keeps failing
   // force_fork: evaluate every candidate in a forked child (some candidate of a non-fatal violation may end the process)
   Job shrink_job( const Job& j, const std::string& oracle, unsigned& reruns, bool force_fork = false );

}  // namespace sim
