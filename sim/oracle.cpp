#include "oracle.hpp"

#include <algorithm>
#include <cstdio>
#include <sstream>

#include "optable.hpp"

namespace sim
{
   namespace
   {
      struct Frame
      {
         std::size_t enter = 0;  // index of the ENTER event
         std::uint32_t rule = 0;
         RC cls = RC::OTHER;
         int p0 = -1;
         std::uint8_t flags = 0, afam = 0, cfam = 0;
         bool sub = false;
         std::uint32_t pos = 0, byte = 0, line = 0, col = 0, sid = 0;
         std::uint32_t cur_sid = 0;
         std::uint32_t furthest = 0;
         std::uint32_t children = 0;
         bool delegating = false;  // Action< Rule >::match re-entered Control< Rule >::match (change_action*)
         // control protocol
         int starts = 0;
         int closing = -1;  // Ev of the closing hook seen, -1 none
         int closings = 0;
         std::size_t closing_idx = 0;
         int applies = 0;
         int action_result = -1;  // -1 none, 0 false, 1 true/void
         // exceptions
         bool child_exc = false;
         std::uint32_t child_exc_idx = 0;
         bool fault_pending = false;  // a FAULT fired in this frame's own body (since the last child closed)
         std::uint32_t fault_cls = 0, fault_id = 0;
         std::size_t fault_idx = 0;
         bool raise_pending = false;
         std::size_t raise_idx = 0;
         bool raise_nested_seen = false;
         std::size_t raise_nested_idx = 0;
         // states opened in this frame
         std::vector< std::uint32_t > scopes;
         std::vector< std::uint32_t > scope_success;  // per scope: number of S_SUCCESS
         bool success_threw = false;
         // limits
         bool lb_active = false;  // byte guard exists (between this frame's ENTER and EXIT events)
         // hooks of an action derived from control_action
         int ca_starts = 0, ca_closings = 0, ca_closing = -1;
      };

      const char* rule_name( std::uint32_t r )
      {
         return ( r < g_rules.size() ) ? g_rules[ r ].name.c_str() : "?";
      }

      std::string short_name( std::uint32_t r )
      {
         std::string n = rule_name( r );
         const std::string pre = "tao::pegtl::";
         if( n.compare( 0, pre.size(), pre ) == 0 ) {
            n = n.substr( pre.size() );
         }
         if( n.size() > 90 ) {
            n = n.substr( 0, 90 ) + "...";
         }
         return n;
      }

      // rule head without template arguments: stable key for findings
      std::string head_name( std::uint32_t r )
      {
         std::string n = rule_name( r );
         const std::size_t lt = n.find( '<' );
         if( lt != std::string::npos ) {
            n = n.substr( 0, lt );
         }
         return n;
      }

      bool admits( RC cls, std::uint8_t exc )
      {
         const bool pe = ( exc == EXC_PE || exc == EXC_PE_LIB );
         const bool stdx = pe || exc == EXC_STD || exc == EXC_BAD_ALLOC || exc == EXC_OVERFLOW || exc == EXC_OTHER_STD || exc == EXC_SYSTEM;
         switch( cls ) {
            case RC::TC_RF_PE:
            case RC::TC_RN_PE:
               return pe;
            case RC::TC_RF_STD:
            case RC::TC_RN_STD:
               return stdx;
            case RC::TC_RF_ANY:
            case RC::TC_RN_ANY:
               return true;
            case RC::TC_RF_TYPE:
            case RC::TC_RN_TYPE:
               return exc == EXC_FAULT;
            default:
               return false;
         }
      }

      bool is_rf( RC c )
      {
         return c == RC::TC_RF_PE || c == RC::TC_RF_ANY || c == RC::TC_RF_STD || c == RC::TC_RF_TYPE;
      }

      bool is_rn( RC c )
      {
         return c == RC::TC_RN_PE || c == RC::TC_RN_ANY || c == RC::TC_RN_STD || c == RC::TC_RN_TYPE;
      }

      bool carries_switch( RC c )
      {
         return c == RC::W_CHANGE_STATE || c == RC::W_CHANGE_STATES || c == RC::W_CHANGE_ACTION_STATE || c == RC::W_CHANGE_ACTION_STATES || c == RC::W_CHANGE_ACTION || c == RC::W_CHANGE_CONTROL || c == RC::W_ENABLE_ACTION || c == RC::W_DISABLE_ACTION;
      }

      bool opens_state( RC c )
      {
         return c == RC::STATE || c == RC::W_CHANGE_STATE || c == RC::W_CHANGE_STATES || c == RC::W_CHANGE_ACTION_STATE || c == RC::W_CHANGE_ACTION_STATES;
      }

      void line_col( const std::string& x, std::uint32_t byte, std::uint32_t& line, std::uint32_t& col )
      {
         line = 1;
         col = 1;
         for( std::uint32_t i = 0; i < byte && i < x.size(); ++i ) {
            if( x[ i ] == '\n' ) {
               ++line;
               col = 1;
            }
            else {
               ++col;
            }
         }
      }

      struct Ctx
      {
         const Case& c;
         SetId set;
         const RunResult& r;
         std::vector< Violation >& out;
         Features& f;
         bool memory_set;

         void viol( const char* oracle, const std::string& key, std::size_t ev, const std::string& detail )
         {
            if( out.size() >= 16 ) {
               return;
            }
            Violation v;
            v.oracle = oracle;
            v.key = key;
            v.event = ev;
            v.detail = detail;
            out.push_back( std::move( v ) );
         }
      };

      std::string pos_str( const Event& e )
      {
         char b[ 96 ];
         std::snprintf( b, sizeof( b ), "(pos %d byte %d line %u col %u)", int( e.pos ), int( e.byte ), e.line, e.col );
         return b;
      }
   }  // namespace

   void check_history( const Case& c, SetId set, const RunResult& r, std::vector< Violation >& out, Features& f )
   {
      Ctx cx{ c, set, r, out, f, ( set != SET_BUF && set != SET_BUF1 && set != SET_BUF64 ) };
      const std::vector< Event >& h = r.h;
      std::vector< Frame > st;
      st.reserve( 64 );
      const std::uint32_t xlen = static_cast< std::uint32_t >( c.input.size() );
      bool top_open = false;
      bool inflight = false;  // an exception left the top-level frame
      std::uint32_t inflight_idx = 0;
      std::uint32_t root_sid = 0;
      const bool has_depth = true;  // every simulated main input is an input_with_depth
      // multi-byte one<>/range<> rules of UTF-16/32 and the binary rules advance within the line whatever bytes
      // the unit contains ("the line and column numbers are not counted correctly", Rule-Reference.md)
      bool uncounted_units = false;
      if( c.prog == 0 ) {
         for( const NodeRow& row : c.g.n ) {
            if( row.op == OP_ATOM && row.atom != ATOM_BOL && ( atom_meta[ row.atom % N_ATOMS ].caps & CAP_COLUMN ) != 0 ) {
               uncounted_units = true;
            }
         }
      }
      std::uint32_t last_discard_pos = 0;
      bool first_fault_seen = false;

      if( r.asan_hits > 0 ) {
         cx.viol( "C03.poison", "asan", 0, "AddressSanitizer reported " + std::to_string( r.asan_hits ) + " access(es) outside the input window" );
      }

      for( std::size_t i = 0; i < h.size(); ++i ) {
         const Event& e = h[ i ];
         const bool on_sub = ( e.flags & F_SUB ) != 0;
         const bool has_pos = ( e.flags & F_NOPOS ) == 0 && e.pos != NOPOS;
         Frame* top = st.empty() ? nullptr : &st.back();

         if( on_sub ) {
            ++f.sub_inputs;
         }
         if( top != nullptr && has_pos && on_sub == top->sub && e.pos > top->furthest ) {
            for( auto it = st.rbegin(); it != st.rend(); ++it ) {
               if( it->sub != on_sub || it->furthest >= e.pos ) {
                  break;
               }
               it->furthest = e.pos;
            }
         }

         // ---------------- C18: depth counter and input end as seen at every event
         if( top_open && has_pos && !on_sub && e.kind != Ev::S_CTOR && e.kind != Ev::S_SUCCESS && e.kind != Ev::A_APPLY && e.kind != Ev::A_APPLY0 && e.kind != Ev::X_APPLY && e.kind != Ev::RAISE_NESTED && e.kind != Ev::FAULT ) {
            if( has_depth ) {
               std::uint32_t open_ld = 0;
               for( const Frame& fr : st ) {
                  if( fr.cls == RC::W_LIMIT_DEPTH && !fr.delegating ) {
                     ++open_ld;
                  }
               }
               const bool own = ( e.kind == Ev::ENTER && g_rules[ e.rule ].cls == RC::W_LIMIT_DEPTH ) || ( ( e.kind == Ev::EXIT || e.kind == Ev::EXC ) && top != nullptr && top->cls == RC::W_LIMIT_DEPTH && top->rule == e.rule );
               std::uint32_t expect = open_ld;
               if( e.kind == Ev::ENTER && own ) {
                  // the frame is not pushed yet, its guard does not exist yet
               }
               else if( own ) {
                  expect = open_ld - 1;  // guard already destroyed
               }
               if( e.depth != expect ) {
                  cx.viol( "C18.depth", "depth-counter", i, "current_depth() = " + std::to_string( e.depth ) + ", expected " + std::to_string( expect ) + " open depth-guarded invocations at " + ev_name( e.kind ) + " of " + short_name( e.rule ) );
               }
            }
            if( cx.memory_set ) {
               std::uint32_t expect_end = xlen;
               for( const Frame& fr : st ) {
                  if( fr.cls == RC::W_LIMIT_BYTES && fr.lb_active ) {
                     const bool own_exit = ( ( e.kind == Ev::EXIT || e.kind == Ev::EXC ) && &fr == top && top->rule == e.rule );
                     if( !own_exit ) {
                        expect_end = std::min( expect_end, fr.pos + static_cast< std::uint32_t >( fr.p0 ) );
                     }
                  }
               }
               if( e.endoff != expect_end && e.kind != Ev::SET_END ) {
                  cx.viol( "C18.end", "input-end", i, "in.end() is at offset " + std::to_string( int( e.endoff ) ) + ", expected " + std::to_string( expect_end ) + " at " + ev_name( e.kind ) + " of " + short_name( e.rule ) + " " + pos_str( e ) );
               }
            }
         }

         switch( e.kind ) {
            case Ev::TOP_BEGIN:
               top_open = true;
               root_sid = e.sid;
               break;

            case Ev::TOP_END: {
               top_open = false;
               if( !st.empty() ) {
                  cx.viol( "HARNESS", "open-frames", i, "frames still open at TOP_END" );
               }
               const bool exc = ( e.flags & F_EXC ) != 0;
               if( exc ) {
                  ++f.reached_caller;
               }
               if( inflight != exc ) {
                  cx.viol( "C05.same", "caller", i, inflight ? "exception left the top-level rule but parse() returned normally" : "parse() threw although the top-level rule returned normally" );
               }
               else if( exc && e.x < r.excs.size() && inflight_idx < r.excs.size() && r.excs[ e.x ].hash != r.excs[ inflight_idx ].hash ) {
                  cx.viol( "C05.same", "caller", i, "exception at the caller differs from the one that left the grammar: '" + r.excs[ e.x ].what + "' vs '" + r.excs[ inflight_idx ].what + "'" );
               }
               if( exc && e.x < r.excs.size() && r.excs[ e.x ].cls == EXC_OVERFLOW ) {
                  ++f.overflow;
               }
               // C18.residue
               if( e.flags & ( F_SUB | F_NOPOS ) ) {
                  break;  // stock input classes (I/O jobs): no depth counter, no stable end pointer
               }
               if( has_depth && e.depth != 0 ) {
                  cx.viol( "C18.residue", "depth-residue", i, "current_depth() = " + std::to_string( e.depth ) + " after the run" );
               }
               if( cx.memory_set && e.endoff != xlen ) {
                  cx.viol( "C18.residue", "end-residue", i, "in.end() at offset " + std::to_string( int( e.endoff ) ) + " after the run, real end " + std::to_string( xlen ) );
               }
               break;
            }

            case Ev::ENTER: {
               ++f.invocations;
               const RuleInfo& ri = g_rules[ e.rule ];
               Frame fr;
               fr.enter = i;
               fr.rule = e.rule;
               fr.cls = ri.cls;
               fr.p0 = ri.p0;
               fr.flags = e.flags;
               fr.afam = e.afam;
               fr.cfam = e.cfam;
               fr.sub = on_sub;
               fr.pos = e.pos;
               fr.byte = e.byte;
               fr.line = e.line;
               fr.col = e.col;
               fr.sid = e.sid;
               fr.cur_sid = e.sid;
               fr.furthest = e.pos;
               if( top != nullptr ) {
                  if( top->children == 0 && top->rule == e.rule ) {
                     top->delegating = true;
                  }
                  ++top->children;
                  top->fault_pending = false;
                  top->raise_pending = false;
                  // C13.mode: apply mode inherited / forced by the parent
                  bool expect_action = ( top->flags & F_ACTION ) != 0;
                  if( top->cls == RC::AT || top->cls == RC::NOT_AT || top->cls == RC::DISABLE || ( top->cls == RC::W_DISABLE_ACTION ) ) {
                     expect_action = false;
                  }
                  else if( top->cls == RC::ENABLE || top->cls == RC::W_ENABLE_ACTION ) {
                     expect_action = true;
                  }
                  else if( e.rule != top->rule && top->cls == RC::W_CHANGE_ACTION_STATES ) {
                     expect_action = false;  // act2< mw_cass > is disable_action: applies to everything below the rule
                  }
                  else if( e.rule != top->rule && top->cls == RC::W_CHANGE_ACTION_STATE ) {
                     expect_action = true;  // act2< mw_cas > is enable_action
                  }
                  if( ( ( e.flags & F_ACTION ) != 0 ) != expect_action ) {
                     cx.viol( "C13.mode", head_name( top->rule ), i, std::string( "apply mode is " ) + ( ( e.flags & F_ACTION ) ? "action" : "nothing" ) + " for " + short_name( e.rule ) + " under " + short_name( top->rule ) + " (entered with " + ( ( top->flags & F_ACTION ) ? "action" : "nothing" ) + ")" );
                  }
                  // C13.seen: action / control family in effect
                  std::uint8_t expect_af = top->afam;
                  if( ( top->cls == RC::W_CHANGE_ACTION || top->cls == RC::W_CHANGE_ACTION_STATE || top->cls == RC::W_CHANGE_ACTION_STATES || top->cls == RC::ACTION ) ) {
                     expect_af = 2;
                  }
                  std::uint8_t expect_cf = top->cfam;
                  if( top->cls == RC::W_CHANGE_CONTROL ) {
                     expect_cf = 2;
                  }
                  else if( top->cls == RC::CONTROL ) {
                     expect_cf = static_cast< std::uint8_t >( g_rules[ top->rule ].p0 > 0 ? g_rules[ top->rule ].p0 : 2 );
                  }
                  if( e.afam != expect_af ) {
                     cx.viol( "C13.seen", "action-family:" + head_name( top->rule ), i, "action family " + std::to_string( e.afam ) + " in effect for " + short_name( e.rule ) + " under " + short_name( top->rule ) + ", expected " + std::to_string( expect_af ) );
                  }
                  if( e.cfam != expect_cf ) {
                     cx.viol( "C13.seen", "control-family:" + head_name( top->rule ), i, "control family " + std::to_string( e.cfam ) + " in effect for " + short_name( e.rule ) + " under " + short_name( top->rule ) + ", expected " + std::to_string( expect_cf ) );
                  }
                  if( e.afam != top->afam || e.cfam != top->cfam ) {
                     ++f.switches;
                  }
                  if( e.rule != top->rule && ( top->cls == RC::STATE || ( opens_state( top->cls ) && top->afam == 1 ) ) && top->scopes.empty() ) {
                     cx.viol( "C13.life", "no-state:" + head_name( top->rule ), i, short_name( e.rule ) + " runs under " + short_name( top->rule ) + ", which has not constructed its state" );
                  }
                  if( e.sid != 0 && top->cur_sid != 0 && e.sid != top->cur_sid ) {
                     cx.viol( "C13.seen", "state:" + head_name( top->rule ), i, "rule " + short_name( e.rule ) + " receives state #" + std::to_string( e.sid ) + ", innermost open state is #" + std::to_string( top->cur_sid ) );
                  }
               }
               else {
                  if( ( ( e.flags & F_ACTION ) != 0 ) != ( c.topA != 0 ) && set != SET_TREE && set != SET_COV ) {
                     cx.viol( "C13.mode", "top", i, "top-level apply mode differs from the one requested" );
                  }
               }
               if( fr.cls == RC::W_LIMIT_BYTES ) {
                  ++f.byte_limits;
                  if( fr.pos > 0 ) {
                     ++f.byte_limits_offset;
                  }
               }
               if( fr.cls == RC::W_LIMIT_DEPTH ) {
                  ++f.depth_limits;
               }
               st.push_back( std::move( fr ) );
               break;
            }

            case Ev::EXIT:
            case Ev::EXC: {
               if( top == nullptr || top->rule != e.rule ) {
                  cx.viol( "HARNESS", "frame-mismatch", i, std::string( "EXIT/EXC of " ) + short_name( e.rule ) + " does not match the innermost open frame" );
                  return;
               }
               Frame fr = std::move( st.back() );
               st.pop_back();
               Frame* parent = st.empty() ? nullptr : &st.back();
               const bool result = ( e.flags & F_RESULT ) != 0;
               const bool moved = ( e.pos != fr.pos ) || ( e.byte != fr.byte ) || ( e.line != fr.line ) || ( e.col != fr.col );
               const std::string hn = head_name( fr.rule );

               if( fr.cls == RC::W_CHECK_BYTES && !fr.delegating && !on_sub && fr.p0 >= 0 ) {
                  // check_bytes< N >: success only with at most N bytes consumed; its own error only beyond N
                  if( e.kind == Ev::EXIT && result && e.pos > fr.pos + static_cast< std::uint32_t >( fr.p0 ) ) {
                     cx.viol( "C18.bytes", "check-bytes-passed", i, short_name( fr.rule ) + " succeeded after consuming " + std::to_string( e.pos - fr.pos ) + " bytes, limit " + std::to_string( fr.p0 ) );
                  }
                  if( e.kind == Ev::EXC && e.x < r.excs.size() && r.excs[ e.x ].cls == EXC_PE_LIB && !fr.fault_pending && !fr.raise_pending && fr.closings == 1 && h[ fr.closing_idx ].pos <= fr.pos + static_cast< std::uint32_t >( fr.p0 ) && !fr.child_exc ) {
                     cx.viol( "C18.bytes", "check-bytes-early", i, short_name( fr.rule ) + " reported excess consumption after " + std::to_string( h[ fr.closing_idx ].pos - fr.pos ) + " bytes, limit " + std::to_string( fr.p0 ) );
                  }
               }
               if( fr.cls == RC::MI_RAISE && e.kind == Ev::EXIT && !result && !fr.delegating ) {
                  cx.viol( "C05.first", hn, i, short_name( fr.rule ) + " has a must_if message with raise_on_failure, yet it failed locally without raising" );
               }
               if( e.kind == Ev::EXIT ) {
                  // ---------------- C02
                  if( !result && ( fr.flags & F_REQUIRED ) ) {
                     if( moved ) {
                        cx.viol( "C02.restore", hn, i, short_name( fr.rule ) + " failed locally with rewinding required but left the cursor at " + pos_str( e ) + ", attempt started at " + pos_str( h[ fr.enter ] ) );
                     }
                     else if( fr.furthest > fr.pos ) {
                        ++f.local_fail_consumed;
                     }
                  }
                  if( ( fr.cls == RC::AT || fr.cls == RC::NOT_AT ) ) {
                     if( moved ) {
                        cx.viol( "C02.lookahead", hn, i, short_name( fr.rule ) + " moved the cursor to " + pos_str( e ) + " from " + pos_str( h[ fr.enter ] ) );
                     }
                     else if( fr.furthest > fr.pos ) {
                        ++f.lookahead;
                     }
                  }
                  if( result && e.pos < fr.pos ) {
                     cx.viol( "C02.forward", hn, i, short_name( fr.rule ) + " succeeded with the cursor moved backwards to " + pos_str( e ) + " from " + pos_str( h[ fr.enter ] ) );
                  }
                  // ---------------- C05: did this frame swallow an exception of a child?
                  if( fr.child_exc ) {
                     const ExcInfo& x = r.excs[ fr.child_exc_idx ];
                     if( !is_rf( fr.cls ) || !admits( fr.cls, x.cls ) ) {
                        if( x.cls != EXC_ABORT ) {
                           cx.viol( "C05.catcher", hn, i, short_name( fr.rule ) + " swallowed an exception (class " + std::to_string( x.cls ) + " '" + x.what + "') it does not name" );
                        }
                     }
                     else {
                        ++f.caught_rf;
                        if( result ) {
                           cx.viol( "C05.false", hn, i, short_name( fr.rule ) + " caught an exception but reported success" );
                        }
                        else if( ( fr.flags & F_REQUIRED ) && moved ) {
                           cx.viol( "C05.false", hn, i, short_name( fr.rule ) + " converted an exception into a local failure without restoring the cursor: " + pos_str( e ) + " vs " + pos_str( h[ fr.enter ] ) );
                        }
                     }
                  }
               }
               else {
                  // ---------------- C05: exceptional exit
                  const std::uint32_t xi = static_cast< std::uint32_t >( e.x );
                  if( xi >= r.excs.size() ) {
                     cx.viol( "HARNESS", "exc-index", i, "bad exception index" );
                     return;
                  }
                  const ExcInfo& x = r.excs[ xi ];
                  if( fr.child_exc ) {
                     const ExcInfo& y = r.excs[ fr.child_exc_idx ];
                     if( x.hash == y.hash ) {
                        if( admits( fr.cls, y.cls ) && y.cls != EXC_ABORT ) {
                           cx.viol( is_rf( fr.cls ) ? "C05.catcher" : "C05.nested", hn, i, short_name( fr.rule ) + " let an exception pass that it names (class " + std::to_string( y.cls ) + " '" + y.what + "')" );
                        }
                     }
                     else if( is_rn( fr.cls ) && admits( fr.cls, y.cls ) ) {
                        ++f.nested;
                        const Event& en = h[ fr.enter ];
                        if( !( x.cls == EXC_PE_LIB && x.has_nested && x.nested_hash == y.hash ) ) {
                           cx.viol( "C05.nested", hn, i, short_name( fr.rule ) + " did not nest the original exception: got class " + std::to_string( x.cls ) + " '" + x.what + "' nested=" + ( x.has_nested ? "yes" : "no" ) );
                        }
                        else if( !fr.raise_nested_seen ) {
                           cx.viol( "C05.nested", hn, i, short_name( fr.rule ) + " converted an exception without calling raise_nested" );
                        }
                        else {
                           const Event& rn = h[ fr.raise_nested_idx ];
                           const std::string rname = rule_name( rn.rule );
                           const bool msg_ok = ( rn.y != 0 ) ? ( ( static_cast< std::uint32_t >( fnv1a( x.message.data(), x.message.size() ) ) | 1u ) == rn.y ) : ( x.message.find( rname ) != std::string::npos );
                           if( !msg_ok ) {
                              cx.viol( "C05.nested", hn, i, "the nesting parse_error's message '" + x.message + "' " + ( rn.y != 0 ? "is not the custom error message of " : "does not name the rule " ) + rname );
                           }
                           if( rn.byte != en.byte || rn.line != en.line || rn.col != en.col || x.byte != en.byte || x.line != en.line || x.col != en.col ) {
                              cx.viol( "C05.nested", hn, i, short_name( fr.rule ) + " nested error reports position byte " + std::to_string( int( x.byte ) ) + " line " + std::to_string( x.line ) + " col " + std::to_string( x.col ) + ", the rule's attempt started at " + pos_str( en ) );
                           }
                        }
                     }
                     else if( x.cls != EXC_ABORT && y.cls != EXC_ABORT ) {
                        cx.viol( "C05.same", hn, i, "exception changed while passing through " + short_name( fr.rule ) + ": '" + y.what + "' (class " + std::to_string( y.cls ) + ") became '" + x.what + "' (class " + std::to_string( x.cls ) + ")" );
                     }
                  }
                  else {
                     // fresh exception originating in this frame's own body
                     if( fr.fault_pending ) {
                        bool same = ( x.cls == fr.fault_cls ) && ( x.cls == EXC_BAD_ALLOC || x.cls == EXC_PE || x.id == fr.fault_id );
                        if( same && x.cls == EXC_PE ) {
                           same = ( x.message == "sim#" + std::to_string( fr.fault_id ) );
                        }
                        if( !same ) {
                           cx.viol( "C05.same", hn, i, "exception leaving " + short_name( fr.rule ) + " (class " + std::to_string( x.cls ) + " id " + std::to_string( x.id ) + " '" + x.what + "') is not the one thrown (class " + std::to_string( fr.fault_cls ) + " id " + std::to_string( fr.fault_id ) + ")" );
                        }
                     }
                     else if( fr.raise_pending ) {
                        // ---------------- C05.first / C05.where: natural global failure
                        const Event& re = h[ fr.raise_idx ];
                        const std::string rn = rule_name( re.rule );
                        // custom message: the rule's own error_message (fingerprint recorded at the raise hook);
                        // default message: any text that names the rule that failed
                        const bool custom = ( re.y != 0 );
                        const bool msg_ok = custom ? ( ( static_cast< std::uint32_t >( fnv1a( x.message.data(), x.message.size() ) ) | 1u ) == re.y ) : ( x.message.find( rn ) != std::string::npos );
                        if( x.cls != EXC_PE_LIB ) {
                           cx.viol( "C05.first", head_name( re.rule ), i, "raise for " + short_name( re.rule ) + " produced an exception of class " + std::to_string( x.cls ) );
                        }
                        else {
                           if( !msg_ok ) {
                              cx.viol( "C05.first", head_name( re.rule ), i, "parse_error message '" + x.message + "' " + ( custom ? "is not the custom error message of " : "does not name the failed rule " ) + rn );
                           }
                           if( x.byte != re.byte || x.line != re.line || x.col != re.col ) {
                              cx.viol( "C05.first", head_name( re.rule ), i, "parse_error position byte " + std::to_string( int( x.byte ) ) + " line " + std::to_string( x.line ) + " col " + std::to_string( x.col ) + " differs from the input position at raise " + pos_str( re ) );
                           }
                           if( !fr.sub && ( x.byte < fr.byte || x.byte > std::max( fr.furthest, fr.pos ) ) && set != SET_BUF && set != SET_BUF1 && set != SET_BUF64 ) {
                              cx.viol( "C05.where", head_name( re.rule ), i, "parse_error byte " + std::to_string( int( x.byte ) ) + " outside the failed attempt [" + std::to_string( int( fr.byte ) ) + ", " + std::to_string( int( fr.furthest ) ) + "]" );
                           }
                           std::uint32_t l, cc;
                           line_col( c.input, x.byte, l, cc );
                           if( ( l != x.line || cc != x.col ) && !uncounted_units ) {
                              cx.viol( "C05.where", head_name( re.rule ), i, "parse_error line/column " + std::to_string( x.line ) + ":" + std::to_string( x.col ) + " inconsistent with byte " + std::to_string( int( x.byte ) ) + " (expected " + std::to_string( l ) + ":" + std::to_string( cc ) + ")" );
                           }
                           const std::string ps = x.source + ":" + std::to_string( x.line ) + ":" + std::to_string( x.col );
                           if( x.position_string != ps || x.what != ps + ": " + x.message || x.source != "sim" ) {
                              cx.viol( "C05.where", head_name( re.rule ), i, "what() '" + x.what + "' is not source:line:column: message (position_string '" + x.position_string + "')" );
                           }
                        }
                     }
                     else {
                        // must_if raises custom messages itself (no raise hook): from the failure hook of a rule that
                        // raises on failure, or from must< R > for a rule that only carries a message
                        bool mi_ok = false;
                        if( x.cls == EXC_PE_LIB && x.message.compare( 0, 4, "msg " ) == 0 ) {
                           const std::string rn = rule_name( fr.rule );
                           const std::string want = ( rn.find( "mi_raise_a" ) != std::string::npos ) ? "msg a" : ( ( rn.find( "mi_raise_d" ) != std::string::npos ) ? "msg d" : ( ( rn.find( "mi_msg_b" ) != std::string::npos ) ? "msg b" : "" ) );
                           const bool right_frame = ( fr.cls == RC::MI_RAISE ) || ( fr.cls == RC::MUST && rn.find( "mi_msg_b" ) != std::string::npos );
                           if( !right_frame || x.message != want ) {
                              cx.viol( "C05.first", hn, i, "parse_error '" + x.message + "' raised in " + short_name( fr.rule ) + ", expected '" + want + "'" );
                           }
                           if( x.byte < fr.byte || x.byte > std::max( fr.furthest, fr.pos ) ) {
                              cx.viol( "C05.where", hn, i, "must_if error at byte " + std::to_string( int( x.byte ) ) + " outside the failed attempt [" + std::to_string( int( fr.byte ) ) + ", " + std::to_string( int( std::max( fr.furthest, fr.pos ) ) ) + "]" );
                           }
                           mi_ok = true;
                        }
                        const bool known = mi_ok || ( x.cls == EXC_ABORT ) || ( x.cls == EXC_OVERFLOW && !cx.memory_set ) || ( x.cls == EXC_IO ) || ( x.cls == EXC_BAD_ALLOC ) || ( x.cls == EXC_SYSTEM && int( set ) >= 20 )
                                           || ( fr.cls == RC::W_CHECK_BYTES && x.cls == EXC_PE_LIB )   // check_bytes' own error (thrown without a raise hook)
                                           || ( fr.cls == RC::INTEGER && x.cls == EXC_PE_LIB );        // integer overflow error
                        if( !known ) {
                           cx.viol( "C05.same", hn, i, "exception of unknown origin leaves " + short_name( fr.rule ) + ": class " + std::to_string( x.cls ) + " '" + x.what + "'" );
                        }
                     }
                  }
                  if( fr.cls == RC::W_LIMIT_DEPTH && fr.raise_pending ) {
                     ++f.depth_raise;
                  }
               }

               // ---------------- C08: hook protocol of this invocation
               const bool hooks_expected = g_rules[ fr.rule ].enable && !fr.delegating;
               const std::uint8_t hook_cf = ( fr.cls == RC::W_CHANGE_CONTROL && fr.cfam == 1 ) ? 2 : fr.cfam;
               if( hooks_expected ) {
                  if( fr.starts != 1 ) {
                     // limit_depth raises before the rule is started: no hooks at all is the documented behaviour
                     const bool ld_raise = ( fr.cls == RC::W_LIMIT_DEPTH && e.kind == Ev::EXC && fr.starts == 0 );
                     const bool ctor_threw = opens_state( fr.cls ) && e.kind == Ev::EXC && fr.starts == 0 && fr.children == 0;
                     if( !ld_raise && !ctor_threw ) {
                        cx.viol( "C08.balance", hn, i, short_name( fr.rule ) + " saw start " + std::to_string( fr.starts ) + " times" );
                     }
                  }
                  else if( e.kind == Ev::EXIT ) {
                     const Ev want = result ? Ev::SUCCESS : Ev::FAILURE;
                     // change_state & co. report success/failure of the rule, then the state's success may still run
                     if( fr.closings != 1 || fr.closing != int( want ) ) {
                        cx.viol( fr.closings == 1 ? "C08.truth" : "C08.balance", hn, i, short_name( fr.rule ) + " returned " + ( result ? "true" : "false" ) + " but the control saw " + ( fr.closings == 0 ? std::string( "no closing hook" ) : ( std::to_string( fr.closings ) + " closing hook(s), last " + ev_name( Ev( fr.closing ) ) ) ) );
                     }
                  }
                  else {
                     if( fr.closings == 0 ) {
                        if( hook_cf != 2 ) {
                           cx.viol( "C08.balance", hn, i, "exception passed through " + short_name( fr.rule ) + " after start, but the control saw neither success, failure nor unwind" );
                        }
                     }
                     else if( fr.closings > 1 ) {
                        cx.viol( "C08.balance", hn, i, short_name( fr.rule ) + " saw " + std::to_string( fr.closings ) + " closing hooks" );
                     }
                     else if( fr.closing != int( Ev::UNWIND ) ) {
                        // allowed only if the closing hook itself threw, or a later step of the same
                        // invocation (state success of change_state) threw after the rule had closed
                        const bool hook_threw = ( fr.closing_idx + 1 < h.size() && h[ fr.closing_idx + 1 ].kind == Ev::FAULT );
                        if( !hook_threw && !fr.success_threw && !( fr.cls == RC::W_LIMIT_BYTES && fr.raise_pending ) && !( fr.cls == RC::W_CHECK_BYTES ) ) {
                           cx.viol( "C08.truth", hn, i, "exception passed through " + short_name( fr.rule ) + " but the control saw " + ev_name( Ev( fr.closing ) ) );
                        }
                     }
                     else {
                        ++f.unwinds;
                        if( hook_cf == 2 ) {
                           cx.viol( "C08.truth", hn, i, "unwind reported by a control without unwind()" );
                        }
                     }
                  }
               }
               else if( fr.starts != 0 || fr.closings != 0 || fr.applies != 0 ) {
                  cx.viol( "C08.truth", hn, i, "hooks were called for " + short_name( fr.rule ) + " whose control is disabled" );
               }
               if( fr.action_result == 0 && e.kind == Ev::EXIT && result && hooks_expected ) {
                  cx.viol( "C08.apply", hn, i, short_name( fr.rule ) + " succeeded although its action returned false" );
               }

               // ---------------- C08: action-level hook protocol of control_action
               if( fr.cls == RC::W_CONTROL_ACTION ) {
                  const bool with_unwind = ( g_rules[ fr.rule ].p0 == 0 );
                  if( fr.ca_starts != 1 ) {
                     cx.viol( "C08.action-hooks", hn, i, "the control_action of " + short_name( fr.rule ) + " saw start " + std::to_string( fr.ca_starts ) + " times" );
                  }
                  else if( e.kind == Ev::EXIT ) {
                     const int want = int( result ? Ev::CA_SUCCESS : Ev::CA_FAILURE );
                     if( fr.ca_closings != 1 || fr.ca_closing != want ) {
                        cx.viol( "C08.action-hooks", hn, i, short_name( fr.rule ) + " returned " + ( result ? "true" : "false" ) + " but its control_action saw " + ( fr.ca_closings == 0 ? std::string( "no closing hook" ) : std::to_string( fr.ca_closings ) + " closing hook(s), last " + ev_name( Ev( fr.ca_closing ) ) ) );
                     }
                  }
                  else if( with_unwind ? ( fr.ca_closings != 1 || fr.ca_closing != int( Ev::CA_UNWIND ) ) : ( fr.ca_closings != 0 ) ) {
                     cx.viol( "C08.action-hooks", hn, i, "exception passed through " + short_name( fr.rule ) + " and its control_action (" + ( with_unwind ? "with" : "without" ) + " unwind) saw " + ( fr.ca_closings == 0 ? std::string( "no closing hook" ) : std::to_string( fr.ca_closings ) + " closing hook(s), last " + ev_name( Ev( fr.ca_closing ) ) ) );
                  }
               }

               // ---------------- C13: scopes opened in this frame are closed
               if( !fr.scopes.empty() ) {
                  cx.viol( "C13.life", hn, i, "state #" + std::to_string( fr.scopes.back() ) + " outlives the attempt of " + short_name( fr.rule ) );
               }

               if( parent != nullptr ) {
                  if( e.kind == Ev::EXC ) {
                     parent->child_exc = true;
                     parent->child_exc_idx = static_cast< std::uint32_t >( e.x );
                  }
                  else {
                     parent->child_exc = false;
                  }
               }
               else {
                  inflight = ( e.kind == Ev::EXC );
                  inflight_idx = static_cast< std::uint32_t >( e.x );
               }
               break;
            }

            case Ev::START:
            case Ev::SUCCESS:
            case Ev::FAILURE:
            case Ev::UNWIND: {
               if( top == nullptr || top->rule != e.rule ) {
                  cx.viol( "C08.balance", head_name( e.rule ), i, std::string( ev_name( e.kind ) ) + " for " + short_name( e.rule ) + " while the innermost open rule is " + ( top ? short_name( top->rule ) : std::string( "none" ) ) );
                  if( carries_switch( g_rules[ e.rule ].cls ) ) {
                     // the rule runs although Control< Rule >::match was never entered: its match()-bearing action was bypassed
                     cx.viol( "C13.seen", "bypass:" + head_name( e.rule ), i, short_name( e.rule ) + " runs (" + ev_name( e.kind ) + ") without its control's match() having been entered: the switch attached to it cannot have been applied" );
                  }
                  break;
               }
               if( e.kind == Ev::START && top->cls == RC::W_LIMIT_DEPTH && !on_sub ) {
                  // the guarded rule runs: it must be within the configured number of guarded levels
                  std::uint32_t k = 0;
                  for( const Frame& fr : st ) {
                     if( fr.cls == RC::W_LIMIT_DEPTH && !fr.delegating ) {
                        ++k;
                     }
                  }
                  if( top->p0 >= 0 && k > static_cast< std::uint32_t >( top->p0 ) ) {
                     cx.viol( "C18.depth", "limit-not-enforced", i, short_name( e.rule ) + " runs at guarded nesting level " + std::to_string( k ) + " although the limit is " + std::to_string( top->p0 ) );
                  }
               }
               if( e.kind == Ev::START ) {
                  ++top->starts;
                  if( top->children != 0 ) {
                     cx.viol( "C08.balance", head_name( e.rule ), i, "start of " + short_name( e.rule ) + " after its sub-rules ran" );
                  }
               }
               else {
                  ++top->closings;
                  top->closing = int( e.kind );
                  top->closing_idx = i;
                  if( top->starts != 1 ) {
                     cx.viol( "C08.balance", head_name( e.rule ), i, std::string( ev_name( e.kind ) ) + " of " + short_name( e.rule ) + " without start" );
                  }
                  if( e.kind == Ev::FAILURE && top->action_result == 1 ) {
                     cx.viol( "C08.apply", head_name( e.rule ), i, "failure reported for " + short_name( e.rule ) + " although its action accepted" );
                  }
                  if( e.kind == Ev::SUCCESS && top->action_result == 0 ) {
                     cx.viol( "C08.apply", head_name( e.rule ), i, "success reported for " + short_name( e.rule ) + " although its action returned false" );
                  }
               }
               {
                  const std::uint8_t want_cf = ( top->cls == RC::W_CHANGE_CONTROL && top->cfam == 1 ) ? 2 : top->cfam;
                  if( e.cfam != want_cf ) {
                     cx.viol( "C13.seen", "control-family:" + head_name( e.rule ), i, std::string( ev_name( e.kind ) ) + " of " + short_name( e.rule ) + " delivered to control family " + std::to_string( e.cfam ) + ", expected " + std::to_string( want_cf ) );
                  }
                  if( e.sid != 0 && top->cur_sid != 0 && e.sid != top->cur_sid ) {
                     cx.viol( "C13.seen", "state:" + head_name( e.rule ), i, std::string( ev_name( e.kind ) ) + " of " + short_name( e.rule ) + " receives state #" + std::to_string( e.sid ) + ", innermost open state is #" + std::to_string( top->cur_sid ) );
                  }
               }
               break;
            }

            case Ev::CA_START:
            case Ev::CA_SUCCESS:
            case Ev::CA_FAILURE:
            case Ev::CA_UNWIND: {
               if( top == nullptr || top->rule != e.rule ) {
                  cx.viol( "C08.action-hooks", head_name( e.rule ), i, std::string( ev_name( e.kind ) ) + " for " + short_name( e.rule ) + " while the innermost open rule is " + ( top ? short_name( top->rule ) : std::string( "none" ) ) );
                  break;
               }
               if( e.kind == Ev::CA_START ) {
                  ++top->ca_starts;
                  if( top->starts != 0 || top->children != 0 ) {
                     cx.viol( "C08.action-hooks", head_name( e.rule ), i, "action-level start of " + short_name( e.rule ) + " after the rule had been started" );
                  }
               }
               else {
                  ++top->ca_closings;
                  top->ca_closing = int( e.kind );
                  // the action-level closing hook follows the control's closing hook of the same kind
                  const int want = ( e.kind == Ev::CA_SUCCESS ) ? int( Ev::SUCCESS ) : int( Ev::FAILURE );
                  if( top->ca_starts != 1 ) {
                     cx.viol( "C08.action-hooks", head_name( e.rule ), i, std::string( ev_name( e.kind ) ) + " of " + short_name( e.rule ) + " without action-level start" );
                  }
                  else if( g_rules[ e.rule ].enable && e.kind != Ev::CA_UNWIND && top->closing != want ) {
                     cx.viol( "C08.action-hooks", head_name( e.rule ), i, std::string( ev_name( e.kind ) ) + " of " + short_name( e.rule ) + " but the control's closing hook was " + ( top->closing < 0 ? "missing" : ev_name( Ev( top->closing ) ) ) );
                  }
                  if( has_pos && e.kind == Ev::CA_FAILURE && ( top->flags & F_REQUIRED ) && e.pos != top->pos ) {
                     cx.viol( "C08.action-hooks", head_name( e.rule ), i, "action-level failure of " + short_name( e.rule ) + " reported at " + pos_str( e ) + ", the attempt started at " + pos_str( h[ top->enter ] ) );
                  }
               }
               break;
            }

            case Ev::APPLY:
            case Ev::APPLY0: {
               if( top == nullptr || top->rule != e.rule ) {
                  cx.viol( "C08.apply", head_name( e.rule ), i, std::string( ev_name( e.kind ) ) + " for " + short_name( e.rule ) + " while the innermost open rule is " + ( top ? short_name( top->rule ) : std::string( "none" ) ) );
                  break;
               }
               ++top->applies;
               if( top->applies > 1 ) {
                  cx.viol( "C08.apply", head_name( e.rule ), i, "action of " + short_name( e.rule ) + " applied more than once for one match" );
               }
               if( !( top->flags & F_ACTION ) ) {
                  cx.viol( "C08.apply", head_name( e.rule ), i, "action of " + short_name( e.rule ) + " applied while actions are disabled" );
               }
               if( top->starts != 1 || top->closings != 0 ) {
                  cx.viol( "C08.apply", head_name( e.rule ), i, "action of " + short_name( e.rule ) + " applied outside start .. success/failure" );
               }
               if( e.afam != top->afam ) {
                  cx.viol( "C13.seen", "action-family:" + head_name( e.rule ), i, "action family " + std::to_string( e.afam ) + " applied for " + short_name( e.rule ) + ", in effect is " + std::to_string( top->afam ) );
               }
               break;
            }

            case Ev::A_APPLY:
            case Ev::A_APPLY0: {
               if( top != nullptr && top->rule == e.rule ) {
                  top->action_result = ( e.flags & F_RESULT ) ? 1 : 0;
                  if( !( e.flags & F_RESULT ) ) {
                     ++f.vetoes;
                  }
                  if( e.afam != top->afam ) {
                     cx.viol( "C13.seen", "action-family:" + head_name( e.rule ), i, "action of family " + std::to_string( e.afam ) + " ran for " + short_name( e.rule ) + ", in effect is family " + std::to_string( top->afam ) );
                  }
                  if( e.sid != 0 && top->cur_sid != 0 && e.sid != top->cur_sid ) {
                     cx.viol( "C13.seen", "state:" + head_name( e.rule ), i, "action of " + short_name( e.rule ) + " receives state #" + std::to_string( e.sid ) + ", innermost open state is #" + std::to_string( top->cur_sid ) );
                  }
                  if( top->applies != 1 ) {
                     cx.viol( "C08.apply", head_name( e.rule ), i, "action of " + short_name( e.rule ) + " ran without the control's apply hook" );
                  }
               }
               else {
                  cx.viol( "C08.apply", head_name( e.rule ), i, "action of " + short_name( e.rule ) + " ran while the innermost open rule is " + ( top ? short_name( top->rule ) : std::string( "none" ) ) );
               }
               break;
            }

            case Ev::X_APPLY:
               break;

            case Ev::RAISE: {
               ++f.natural_raise;
               if( top != nullptr && top->cls == RC::W_LIMIT_DEPTH && !on_sub && std::string( rule_name( e.rule ) ).find( "limit_depth" ) != std::string::npos ) {
                  std::uint32_t k = 0;
                  for( const Frame& fr : st ) {
                     if( fr.cls == RC::W_LIMIT_DEPTH && !fr.delegating ) {
                        ++k;
                     }
                  }
                  if( top->p0 >= 0 && k <= static_cast< std::uint32_t >( top->p0 ) ) {
                     cx.viol( "C18.depth", "limit-too-early", i, "nesting depth error raised at guarded level " + std::to_string( k ) + " although the limit is " + std::to_string( top->p0 ) );
                  }
               }
               if( top != nullptr && top->cls == RC::W_LIMIT_BYTES && !on_sub && top->p0 >= 0 && std::string( rule_name( e.rule ) ).find( "limit_bytes" ) != std::string::npos ) {
                  // the byte limit is reached only if the rule ran into the LOWERED end: when no more than N bytes were
                  // available from where it started, the guard changed nothing and there is nothing to report
                  const Event& en = h[ top->enter ];
                  if( en.endoff >= en.pos && ( en.endoff - en.pos ) <= static_cast< std::uint32_t >( top->p0 ) ) {
                     cx.viol( "C18.bytes", "limit-too-early", i, "byte limit error of " + short_name( top->rule ) + " although only " + std::to_string( en.endoff - en.pos ) + " byte(s) were available from its start, limit " + std::to_string( top->p0 ) );
                  }
               }
               if( top != nullptr ) {
                  top->raise_pending = true;
                  top->raise_idx = i;
                  const bool ok = top->cls == RC::MUST || top->cls == RC::RAISE || top->cls == RC::W_LIMIT_BYTES || top->cls == RC::W_LIMIT_DEPTH;
                  if( !ok ) {
                     cx.viol( "C08.raise", head_name( top->rule ), i, "raise for " + short_name( e.rule ) + " inside " + short_name( top->rule ) + ", which is neither a must-context, a raise rule nor a limit" );
                     cx.viol( "C05.first", "blame:" + head_name( top->rule ), i, "global failure blames " + short_name( e.rule ) + " from inside " + short_name( top->rule ) + ", which does not state that this rule must match" );
                  }
                  else if( top->cls == RC::MUST ) {
                     // must< ..., R, ... > blames the R that failed: the blamed rule is one of the must rule's own arguments
                     const std::string mn = rule_name( top->rule );
                     const std::size_t lt = mn.find( '<' );
                     if( lt == std::string::npos || mn.find( rule_name( e.rule ), lt ) == std::string::npos ) {
                        cx.viol( "C05.first", "blame:" + head_name( top->rule ), i, "global failure inside " + short_name( top->rule ) + " blames " + short_name( e.rule ) + ", which is not one of the rules it requires" );
                     }
                  }
               }
               break;
            }

            case Ev::RAISE_NESTED:
               if( top != nullptr ) {
                  top->raise_nested_seen = true;
                  top->raise_nested_idx = i;
                  if( !is_rn( top->cls ) ) {
                     cx.viol( "C08.raise", head_name( top->rule ), i, "raise_nested inside " + short_name( top->rule ) );
                  }
               }
               break;

            case Ev::FAULT: {
               ++f.faults;
               if( ( ( e.x >> 8 ) & 0xff ) == SITE_ALLOC ) {
                  ++f.alloc_faults;
               }
               if( top != nullptr && top->child_exc ) {
                  // the frame kept running after a sub-rule threw: it caught that exception
                  const ExcInfo& y = r.excs[ top->child_exc_idx ];
                  // (a *_raise_nested rule is inside its handler when an allocation made by raise_nested fails)
                  if( ( !( is_rf( top->cls ) || is_rn( top->cls ) ) || !admits( top->cls, y.cls ) ) && y.cls != EXC_ABORT ) {
                     cx.viol( "C05.catcher", head_name( top->rule ), i, short_name( top->rule ) + " swallowed an exception (class " + std::to_string( y.cls ) + " '" + y.what + "') it does not name" );
                  }
                  else {
                     ++f.caught_rf;
                  }
                  top->child_exc = false;
               }
               if( top != nullptr ) {
                  top->fault_pending = true;
                  top->fault_cls = static_cast< std::uint32_t >( e.x & 0xff );
                  top->fault_id = e.y;
                  top->fault_idx = i;
                  if( i > 0 && h[ i - 1 ].kind == Ev::S_SUCCESS ) {
                     top->success_threw = true;
                  }
               }
               if( !first_fault_seen ) {
                  first_fault_seen = true;
                  // fault context: site, innermost enclosing catcher class, depth bucket
                  std::uint32_t catcher = 0;
                  for( auto it = st.rbegin(); it != st.rend(); ++it ) {
                     if( is_rf( it->cls ) || is_rn( it->cls ) ) {
                        catcher = static_cast< std::uint32_t >( it->cls );
                        break;
                     }
                  }
                  const std::uint32_t depth_bucket = st.size() < 3 ? 0 : ( st.size() < 8 ? 1 : ( st.size() < 20 ? 2 : 3 ) );
                  f.fault_ctx = 1 + ( ( ( static_cast< std::uint32_t >( e.x >> 8 ) & 0xf ) << 12 ) | ( catcher << 4 ) | ( depth_bucket << 2 ) | ( top != nullptr && opens_state( top->cls ) ? 1u : 0u ) );
               }
               break;
            }

            case Ev::S_CTOR: {
               if( !top_open || top == nullptr ) {
                  break;  // root state
               }
               ++f.state_scopes;
               if( !opens_state( top->cls ) ) {
                  cx.viol( "C13.life", head_name( top->rule ), i, "state #" + std::to_string( e.sid ) + " constructed inside " + short_name( top->rule ) + ", which introduces no state" );
                  break;
               }
               if( top->children != 0 ) {
                  cx.viol( "C13.life", head_name( top->rule ), i, "state #" + std::to_string( e.sid ) + " constructed after sub-rules of " + short_name( top->rule ) + " ran" );
               }
               if( has_pos && ( e.pos != top->pos ) ) {
                  cx.viol( "C13.life", head_name( top->rule ), i, "state #" + std::to_string( e.sid ) + " constructed at " + pos_str( e ) + ", the attempt of " + short_name( top->rule ) + " started at " + pos_str( h[ top->enter ] ) );
               }
               if( has_pos && e.x != top->sid ) {
                  cx.viol( "C13.life", head_name( top->rule ), i, "state #" + std::to_string( e.sid ) + " constructed from outer state #" + std::to_string( e.x ) + ", expected #" + std::to_string( top->sid ) );
               }
               top->scopes.push_back( e.sid );
               top->scope_success.push_back( 0 );
               top->cur_sid = e.sid;
               break;
            }

            case Ev::S_SUCCESS: {
               if( top == nullptr || top->scopes.empty() || top->scopes.back() != e.sid ) {
                  cx.viol( "C13.success", top ? head_name( top->rule ) : "none", i, "success delivered to state #" + std::to_string( e.sid ) + " outside its scope" );
                  break;
               }
               ++top->scope_success.back();
               if( e.x != top->sid ) {
                  cx.viol( "C13.success", head_name( top->rule ), i, "state #" + std::to_string( e.sid ) + " success receives outer state #" + std::to_string( e.x ) + ", expected #" + std::to_string( top->sid ) );
               }
               break;
            }

            case Ev::S_DTOR: {
               if( !top_open || e.sid == root_sid ) {
                  break;
               }
               if( top == nullptr || top->scopes.empty() || top->scopes.back() != e.sid ) {
                  cx.viol( "C13.life", top ? head_name( top->rule ) : "none", i, "state #" + std::to_string( e.sid ) + " destroyed while the innermost open rule is " + ( top ? short_name( top->rule ) : std::string( "none" ) ) );
                  break;
               }
               // decide what the scope's outcome must have been from what follows: the frame's EXIT / EXC
               {
                  std::size_t j = i + 1;
                  bool success_hook_after = false;  // the rule form reports its own success after the state is gone; that hook may throw
                  while( j < h.size() && !( ( h[ j ].kind == Ev::EXIT || h[ j ].kind == Ev::EXC ) && h[ j ].rule == top->rule ) && h[ j ].kind != Ev::ENTER ) {
                     if( h[ j ].kind == Ev::SUCCESS && h[ j ].rule == top->rule ) {
                        success_hook_after = true;
                     }
                     ++j;
                  }
                  const bool closes = ( j < h.size() && h[ j ].kind != Ev::ENTER );
                  const bool ok_exit = closes && ( ( h[ j ].kind == Ev::EXIT && ( h[ j ].flags & F_RESULT ) ) || success_hook_after );
                  const bool action_based = ( top->cls != RC::STATE );
                  const bool want = ok_exit && ( !action_based || ( top->flags & F_ACTION ) );
                  const std::uint32_t got = top->scope_success.back();
                  if( !closes ) {
                     cx.viol( "C13.life", head_name( top->rule ), i, "state #" + std::to_string( e.sid ) + " destroyed before the attempt of " + short_name( top->rule ) + " ended" );
                  }
                  else if( want && got != 1 ) {
                     cx.viol( "C13.success", head_name( top->rule ), i, "state #" + std::to_string( e.sid ) + " of " + short_name( top->rule ) + " received success " + std::to_string( got ) + " times although the rule matched" );
                  }
                  else if( !want && got != 0 && !top->success_threw ) {
                     cx.viol( "C13.success", head_name( top->rule ), i, "state #" + std::to_string( e.sid ) + " of " + short_name( top->rule ) + " received success although the rule " + ( closes && h[ j ].kind == Ev::EXC ? "was left by an exception" : ( ok_exit ? "ran with actions disabled" : "failed" ) ) );
                  }
                  if( !ok_exit ) {
                     ++f.state_scopes_failed;
                  }
               }
               top->scopes.pop_back();
               top->scope_success.pop_back();
               top->cur_sid = top->scopes.empty() ? top->sid : top->scopes.back();
               break;
            }

            case Ev::SOFT: {
               static const char* what[] = { "?", "peek beyond the available data", "bump beyond the available data", "bump_in_this_line beyond the available data", "bump_to_next_line beyond the available data", "input end set outside the data", "reader asked to write outside the buffer", "action input span outside the available data" };
               const std::uint32_t w = static_cast< std::uint32_t >( e.x );
               if( w == 9 || w == 10 ) {
                  cx.viol( "C08.tracer", w == 9 ? "output" : "stack", i, w == 9 ? "the hooks the tracer printed differ from the recorded hook sequence from hook number " + std::to_string( e.y ) + " on" : "after the run the tracer's stack holds " + std::to_string( e.y >> 20 ) + " entries and it counted " + std::to_string( e.y & 0xfffffu ) + " rule starts" );
                  break;
               }
               if( w == 8 ) {
                  cx.viol( "C08.adaptor", top ? head_name( top->rule ) : "none", i, "a state-shuffling control adaptor handed its base control the states in order " + std::to_string( e.y ) + " (1 = first tag, 2 = state, 3 = last tag) in " + ( top ? short_name( top->rule ) : std::string( "none" ) ) );
                  break;
               }
               cx.viol( w == 6 ? "C03.reader" : "C03.soft", top ? head_name( top->rule ) : "none", i, std::string( what[ w < 8 ? w : 0 ] ) + " (value " + std::to_string( e.y ) + ") at " + pos_str( e ) + " in " + ( top ? short_name( top->rule ) : std::string( "none" ) ) );
               break;
            }

            case Ev::SET_END: {
               // the byte guard of the innermost limit_bytes frame is created / destroyed here
               for( auto it = st.rbegin(); it != st.rend(); ++it ) {
                  if( it->cls == RC::W_LIMIT_BYTES ) {
                     if( !it->lb_active && it->children == 0 && it->starts == 0 ) {
                        it->lb_active = true;
                     }
                     else if( it->lb_active && &*it == top ) {
                        it->lb_active = false;
                     }
                     break;
                  }
               }
               break;
            }

            case Ev::READ: {
               ++f.reads;
               const std::uint32_t req = static_cast< std::uint32_t >( e.x >> 32 ), got = static_cast< std::uint32_t >( e.x );
               if( got < req && got > 0 ) {
                  ++f.short_reads;
               }
               if( st.size() > 2 ) {
                  ++f.refill_in_rule;
               }
               break;
            }

            case Ev::REQUIRE:
               if( e.x > 3 ) {
                  ++f.big_require;
               }
               break;

            case Ev::DISCARD:
               if( e.y ) {
                  ++f.discards_moved;
               }
               else {
                  ++f.discards_noop;
               }
               last_discard_pos = e.pos;
               (void)last_discard_pos;
               break;

            default:
               break;
         }
      }
      f.nontrivial = ( f.invocations >= 8 ) && ( f.faults > 0 || f.local_fail_consumed > 0 || f.lookahead > 0 || f.short_reads > 0 || f.natural_raise > 0 || f.state_scopes > 0 || f.byte_limits > 0 || f.depth_limits > 0 || f.vetoes > 0 );
   }

   // ------------------------------------------------------------ C07
   namespace
   {
      bool projected( const Event& e )
      {
         switch( e.kind ) {
            case Ev::READ:
            case Ev::REQUIRE:
            case Ev::DISCARD:
            case Ev::SET_END:
               return false;
            default:
               return true;
         }
      }

      std::string ev_brief( const Event& e, const RunResult& r )
      {
         return event_to_string( e, r.excs );
      }
   }  // namespace

   void check_equal( const Case& c, SetId ref_set, const RunResult& ref, SetId alt_set, const RunResult& alt, unsigned chunk, std::vector< Violation >& out, Features& f )
   {
      if( c.short_by != 0 ) {
         return;  // the alternative run sees a shorter stream by construction; judged by check_iofault alone
      }
      (void)ref_set;
      (void)chunk;
      Ctx cx{ c, alt_set, alt, out, f, false };
      // first overflow_error in the alternative run: comparison stops there (permitted deviation),
      // provided the documented window guarantee did not cover the failing request
      std::size_t alt_stop = alt.h.size();
      bool overflow = false;
      bool io_fault = false;
      {
         std::uint32_t last_discard = 0;
         const Event* last_req = nullptr;
         std::size_t last_req_idx = 0;
         for( std::size_t i = 0; i < alt.h.size(); ++i ) {
            const Event& e = alt.h[ i ];
            if( e.kind == Ev::DISCARD ) {
               last_discard = e.pos;
            }
            else if( e.kind == Ev::REQUIRE ) {
               last_req = &e;
               last_req_idx = i;
            }
            else if( e.kind == Ev::FAULT && ( ( ( e.x >> 8 ) & 0xff ) == SITE_READER || ( ( e.x >> 8 ) & 0xff ) == SITE_SYSCALL ) ) {
               // injected I/O error: the alternative run may only deviate from here on (its own history is
               // judged by the exception invariants); everything before must equal the reference
               io_fault = true;
               alt_stop = i;
               break;
            }
            else if( ( e.kind == Ev::EXC || ( e.kind == Ev::TOP_END && ( e.flags & F_EXC ) ) ) && e.x < alt.excs.size() && alt.excs[ e.x ].cls == EXC_OVERFLOW ) {
               overflow = true;
               alt_stop = ( last_req != nullptr ) ? last_req_idx : i;  // the request that threw; unwind hooks follow it
               if( last_req == nullptr && i > 0 && alt.h[ i - 1 ].kind == Ev::UNWIND ) {
                  alt_stop = i - 1;
               }
               if( last_req == nullptr ) {
                  // stock stream inputs (I/O jobs) do not record their requests; their buffers are sized beyond the
                  // whole input, so only a grammar whose look-ahead depends on the data (HTTP chunk sizes) may overflow
                  if( c.prog != 5 ) {
                     cx.viol( "C07.overflow", "no-request", i, "overflow_error although the buffer maximum exceeds the whole input" );
                  }
               }
               else {
                  const std::uint64_t need = std::uint64_t( last_req->pos ) + last_req->x - last_discard;
                  if( need <= c.maximum ) {
                     cx.viol( "C07.overflow", "guarantee", i, "overflow_error for a request of " + std::to_string( last_req->x ) + " byte(s) at offset " + std::to_string( last_req->pos ) + " with the last discard at offset " + std::to_string( last_discard ) + ": " + std::to_string( need ) + " <= maximum " + std::to_string( c.maximum ) + " must fit after any discard" );
                  }
               }
               break;
            }
         }
      }
      // "never memory corruption": a reader asked to write outside the buffer is a deviation in its own right
      for( std::size_t k = 0; k < alt.h.size(); ++k ) {
         if( alt.h[ k ].kind == Ev::SOFT && alt.h[ k ].x == 6 ) {
            cx.viol( "C07.corrupt", "reader-overrun", k, "the stream input asked its reader to write " + std::to_string( alt.h[ k ].y ) + " byte(s) to a place outside its buffer" );
            return;
         }
      }
      std::size_t i = 0, j = 0, n = 0;
      for( ;; ) {
         while( i < ref.h.size() && !projected( ref.h[ i ] ) ) {
            ++i;
         }
         while( j < alt_stop && !projected( alt.h[ j ] ) ) {
            ++j;
         }
         if( j >= alt_stop ) {
            break;
         }
         if( i >= ref.h.size() ) {
            cx.viol( "C07.equal", "length", j, "alternative configuration continues after the reference run ended: " + ev_brief( alt.h[ j ], alt ) );
            return;
         }
         const Event& a = ref.h[ i ];
         const Event& b = alt.h[ j ];
         bool same = a.kind == b.kind && a.flags == b.flags && a.afam == b.afam && a.cfam == b.cfam && g_rules[ a.rule ].namehash == g_rules[ b.rule ].namehash && a.byte == b.byte && a.line == b.line && a.col == b.col && a.sid == b.sid && a.y == b.y && a.depth == b.depth;
         if( same ) {
            if( a.kind == Ev::EXC || ( a.kind == Ev::TOP_END && ( a.flags & F_EXC ) ) ) {
               same = ( a.x < ref.excs.size() && b.x < alt.excs.size() && ref.excs[ a.x ].hash == alt.excs[ b.x ].hash );
            }
            else {
               same = ( a.x == b.x );
            }
         }
         if( !same ) {
            std::string key = head_name( b.rule );
            if( b.rule == 0 ) {
               // attribute to the innermost rule of the alternative run
               for( std::size_t k = j; k-- > 0; ) {
                  if( alt.h[ k ].kind == Ev::ENTER ) {
                     key = head_name( alt.h[ k ].rule );
                     break;
                  }
               }
            }
            cx.viol( "C07.equal", key, j, "event " + std::to_string( n ) + " differs: reference { " + ev_brief( a, ref ) + " } alternative { " + ev_brief( b, alt ) + " }" );
            return;
         }
         // pointer vs counter: not asserted while an exception unwinds (a rewind guard then restores an iterator
         // saved before a top-level discard, which the documentation excludes from any guarantee)
         const bool unwinding = ( b.kind == Ev::EXC || b.kind == Ev::UNWIND || ( b.kind == Ev::TOP_END && ( b.flags & F_EXC ) ) );
         if( !unwinding && !( b.flags & ( F_SUB | F_NOPOS ) ) && b.pos != NOPOS && b.pos != b.byte && b.kind != Ev::RAISE_NESTED ) {
            cx.viol( "C07.equal", "pointer", j, "cursor pointer offset " + std::to_string( b.pos ) + " disagrees with the byte counter " + std::to_string( b.byte ) );
            return;
         }
         ++i;
         ++j;
         ++n;
      }
      if( !overflow && !io_fault ) {
         while( i < ref.h.size() && !projected( ref.h[ i ] ) ) {
            ++i;
         }
         if( i < ref.h.size() ) {
            cx.viol( "C07.equal", "length", j, "alternative configuration ended early; reference continues with " + ev_brief( ref.h[ i ], ref ) );
         }
      }
   }

   void check_iofault( const Case& c, const RunResult& alt, std::vector< Violation >& out, Features& f )
   {
      (void)f;
      Ctx cx{ c, SET_MEM, alt, out, f, false };
      bool ioerr = false, syscall_fault = false;
      std::size_t at = 0;
      if( c.short_by != 0 ) {
         // whole-file read of a stream that ends before the size it reported: must be an error, never a parse
         for( std::size_t i = 0; i < alt.h.size(); ++i ) {
            const Event& e = alt.h[ i ];
            if( e.kind == Ev::ENTER ) {
               cx.viol( "C07.iofault", "short-file", i, "the stream delivered " + std::to_string( c.short_by ) + " byte(s) less than the size it reported, yet parsing started on the buffer" );
               return;
            }
            if( e.kind == Ev::TOP_END ) {
               if( !( e.flags & F_EXC ) || e.x >= alt.excs.size() || alt.excs[ e.x ].cls != EXC_SYSTEM ) {
                  cx.viol( "C07.iofault", "short-file", i, "a short whole-file read did not surface as std::system_error / filesystem_error" );
               }
               return;
            }
         }
         return;
      }
      for( std::size_t i = 0; i < alt.h.size(); ++i ) {
         const Event& e = alt.h[ i ];
         if( e.kind == Ev::IOERR && !ioerr ) {
            ioerr = true;
            at = i;
            syscall_fault = ( e.y == 1 );
         }
         else if( ioerr && ( e.kind == Ev::ENTER || e.kind == Ev::READ || e.kind == Ev::A_APPLY || e.kind == Ev::A_APPLY0 ) ) {
            cx.viol( "C07.iofault", syscall_fault ? "syscall" : "reader", i, std::string( "parsing continued after the " ) + ( syscall_fault ? "failing system call" : "stream reported an error without delivering data" ) + " (event " + std::to_string( at ) + "): " + event_to_string( e, alt.excs ) );
            return;
         }
         else if( e.kind == Ev::TOP_END && ioerr ) {
            const bool exc = ( e.flags & F_EXC ) != 0;
            if( !exc ) {
               cx.viol( "C07.iofault", syscall_fault ? "syscall" : "reader", i, "the I/O error was swallowed: parse() returned normally" );
            }
            else if( e.x < alt.excs.size() && alt.excs[ e.x ].cls != EXC_SYSTEM ) {
               cx.viol( "C07.iofault", syscall_fault ? "syscall" : "reader", i, "the I/O error surfaced as an exception of class " + std::to_string( alt.excs[ e.x ].cls ) + " '" + alt.excs[ e.x ].what + "', not as std::system_error / filesystem_error" );
            }
            return;
         }
      }
   }

   void check_unguarded( const Case& c, const RunResult& guarded, const RunResult& plain, std::vector< Violation >& out )
   {
      Features dummy;
      Ctx cx{ c, SET_MEM, guarded, out, dummy, true };
      // applies only when no limit was hit in the guarded run
      for( const Event& e : guarded.h ) {
         if( e.kind == Ev::RAISE ) {
            const std::string n = rule_name( e.rule );
            if( n.find( "limit_depth" ) != std::string::npos ) {
               return;
            }
         }
      }
      auto proj = []( const RunResult& r ) {
         std::vector< std::pair< std::uint64_t, std::uint64_t > > v;
         for( const Event& e : r.h ) {
            if( e.kind == Ev::A_APPLY || e.kind == Ev::A_APPLY0 || e.kind == Ev::X_APPLY ) {
               v.emplace_back( ( std::uint64_t( int( e.kind ) ) << 40 ) | g_rules[ e.rule ].namehash % 0xffffffffffULL, e.x );
            }
            if( e.kind == Ev::TOP_END ) {
               v.emplace_back( 0xffff, ( std::uint64_t( e.flags ) << 32 ) | e.pos );
            }
         }
         return v;
      };
      if( proj( guarded ) != proj( plain ) ) {
         cx.viol( "C18.depth", "unguarded", 0, "a run in which no limit was hit differs from the same run without the guards (result, consumed length or action trace)" );
      }
   }

   std::string dump_history( const RunResult& r, std::size_t max_events )
   {
      std::ostringstream o;
      int depth = 0;
      for( std::size_t i = 0; i < r.h.size() && i < max_events; ++i ) {
         const Event& e = r.h[ i ];
         if( e.kind == Ev::EXIT || e.kind == Ev::EXC ) {
            --depth;
         }
         o << i << "\t";
         for( int d = 0; d < depth && d < 40; ++d ) {
            o << ' ';
         }
         o << event_to_string( e, r.excs ) << "\n";
         if( e.kind == Ev::ENTER ) {
            ++depth;
         }
      }
      if( r.h.size() > max_events ) {
         o << "... (" << r.h.size() << " events)\n";
      }
      return o.str();
   }

}  // namespace sim
