#include "optable.hpp"

#include <cstring>

namespace sim
{
   const OpMeta op_meta[ N_OPS ] = {
#define OP( NAME, ARITY, CAPS, ... ) { #NAME, ARITY, CAPS },
#include "ops.def"
#undef OP
   };

   const AtomMeta atom_meta[ N_ATOMS ] = {
#define ATOM( NAME, CAPS, NULLABLE, ... ) { #NAME, CAPS, NULLABLE != 0 },
#include "atoms.def"
#undef ATOM
   };

   const OpMeta mop_meta[ N_MOPS ] = {
      { "ATOM", 0, 0 },
      { "SEQ2", 2, 0 },
      { "SOR2", 2, 0 },
      { "STAR", 1, 0 },
      { "OPT", 1, 0 },
      { "AT", 1, 0 },
      { "NOT_AT", 1, 0 },
      { "MUST", 1, 0 },
      { "TC_ANY_RF", 1, 0 },
      { "CA", 1, 0 },
      { "CC", 1, 0 },
      { "ACTION", 1, 0 },
      { "CONTROL", 1, 0 },
      { "CAS", 1, 0 },
      { "CASS", 1, 0 },
      { "DISABLE", 1, 0 },
      { "ENABLE", 1, 0 },
      { "STATE", 1, 0 },
      { "CONTROL_CS", 1, 0 },
      { "CONTROL_DA", 1, 0 },
      { "ACTION_CAS", 1, 0 },
      { "ACTION_CASS", 1, 0 },
      { "DISABLE_CA", 1, 0 },
      { "STATE_CC", 1, 0 },
   };

   const AtomMeta matom_meta[ N_MATOMS ] = {
      { "ONE_A", 0, false },
      { "ONE_B", 0, false },
      { "ANY", 0, false },
      { "STR_AB", 0, false },
      { "DIGIT", 0, false },
      { "EOF_", 0, true },
      { "SUCCESS", 0, true },
      { "FAILURE", 0, false },
   };

   const char* op_name( int op )
   {
      return ( op >= 0 && op < N_OPS ) ? op_meta[ op ].name : "?";
   }
   const char* atom_name( int a )
   {
      return ( a >= 0 && a < N_ATOMS ) ? atom_meta[ a ].name : "?";
   }
   const char* mop_name( int op )
   {
      return ( op >= 0 && op < N_MOPS ) ? mop_meta[ op ].name : "?";
   }
   const char* matom_name( int a )
   {
      return ( a >= 0 && a < N_MATOMS ) ? matom_meta[ a ].name : "?";
   }

   int op_by_name( const std::string& n )
   {
      for( int i = 0; i < N_OPS; ++i ) {
         if( n == op_meta[ i ].name ) {
            return i;
         }
      }
      return -1;
   }
   int atom_by_name( const std::string& n )
   {
      for( int i = 0; i < N_ATOMS; ++i ) {
         if( n == atom_meta[ i ].name ) {
            return i;
         }
      }
      return -1;
   }
   int mop_by_name( const std::string& n )
   {
      for( int i = 0; i < N_MOPS; ++i ) {
         if( n == mop_meta[ i ].name ) {
            return i;
         }
      }
      return -1;
   }
   int matom_by_name( const std::string& n )
   {
      for( int i = 0; i < N_MATOMS; ++i ) {
         if( n == matom_meta[ i ].name ) {
            return i;
         }
      }
      return -1;
   }

}  // namespace sim
