// One translation unit per ( program, parse input type ) of the I/O jobs.
//   -DIO_PROG=<1|2> -DIO_INPUT=<n>  (see io_types.hpp)
#include <tao/pegtl.hpp>

#include <iostream>
#include <sstream>

#include <tao/pegtl/contrib/trace.hpp>

#include "io_grammars.hpp"
#include "io_types.hpp"

namespace sim
{
#if IO_PROG == 1
   using io_top = io::g_json;
#elif IO_PROG == 2
   using io_top = io::g_lines;
#elif IO_PROG == 3
   using io_top = io::g_unsigned;
#elif IO_PROG == 4
   using io_top = io::g_signed;
#elif IO_PROG == 5
   using io_top = io::g_chunked;
#elif IO_PROG == 6
   using io_top = io::g_states;
#elif IO_PROG == 8
   using io_top = io::g_hooks;
#elif IO_PROG == 9
   using io_top = io::g_json;
#elif IO_PROG == 10
   using io_top = io::g_json;
#elif IO_PROG == 11
   using io_top = io::g_nest;
#else
   using io_top = io::g_mustif;
#endif

   using io_in = io_input< IO_INPUT >::type;

   template<>
   bool io_parse< IO_PROG, io_in >( io_in& in, sim_state& root )
   {
#if IO_PROG == 3
      (void)root;
      std::uint64_t value = 0;
      return pegtl::parse< io_top, sim_action, sim_control >( in, value );
#elif IO_PROG == 4
      (void)root;
      std::int64_t value = 0;
      return pegtl::parse< io_top, sim_action, sim_control >( in, value );
#elif IO_PROG == 7
      return pegtl::parse< io_top, sim_action, io::mi_control >( in, root );
#elif IO_PROG == 9 || IO_PROG == 10
      // the tracer (a state_control state) over the recording control; JSON grammar; 9: internal rules hidden, 10: every rule
      constexpr bool complete = ( IO_PROG == 10 );
      struct cerr_capture
      {
         std::ostringstream oss;
         std::streambuf* old;
         cerr_capture()
            : old( std::cerr.rdbuf( oss.rdbuf() ) )
         {}
         ~cerr_capture()
         {
            std::cerr.rdbuf( old );
         }
      } cap;
      pegtl::tracer< pegtl::tracer_traits< !complete, false > > tr( in );
      bool result = false;
      try {
         result = tr.template parse< io_top, sim_action, sim_control >( in, root );
      }
      catch( ... ) {
         tracer_check( cap.oss.str(), tr.m_stack.size(), tr.m_count, complete, snap( in ) );
         throw;
      }
      tracer_check( cap.oss.str(), tr.m_stack.size(), tr.m_count, complete, snap( in ) );
      return result;
#elif IO_PROG == 8
      io::tag_a ta;
      io::tag_b tb;
      return pegtl::parse< io_top, sim_action, sim_control >( in, ta, root, tb );
#else
      return pegtl::parse< io_top, sim_action, sim_control >( in, root );
#endif
   }

}  // namespace sim
