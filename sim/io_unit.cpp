// One translation unit per ( program, parse input type ) of the I/O jobs.
//   -DIO_PROG=<1|2> -DIO_INPUT=<0 memory eager | 1 memory lazy | 2 cstream | 3 istream>
#include <tao/pegtl.hpp>

#include "io_grammars.hpp"
#include "io_types.hpp"

namespace sim
{
#if IO_PROG == 1
   using io_top = io::g_json;
#else
   using io_top = io::g_lines;
#endif

#if IO_INPUT == 0
   using io_in = io_mem_eager;
#elif IO_INPUT == 1
   using io_in = io_mem_lazy;
#elif IO_INPUT == 2
   using io_in = io_cstream;
#else
   using io_in = io_istream;
#endif

   template<>
   bool io_parse< IO_PROG, io_in >( io_in& in, sim_state& root )
   {
      return pegtl::parse< io_top, sim_action, sim_control >( in, root );
   }

}  // namespace sim
