// One translation unit per ( program, parse input type ) of the I/O jobs.
//   -DIO_PROG=<1|2> -DIO_INPUT=<n>  (see io_types.hpp)
#include <tao/pegtl.hpp>

#include "io_grammars.hpp"
#include "io_types.hpp"

namespace sim
{
#if IO_PROG == 1
   using io_top = io::g_json;
#elif IO_PROG == 2
   using io_top = io::g_lines;
#elif IO_PROG == 3
   using io_top = io::g_unsigned;
#elif IO_PROG == 4
   using io_top = io::g_signed;
#elif IO_PROG == 5
   using io_top = io::g_chunked;
#elif IO_PROG == 6
   using io_top = io::g_states;
#elif IO_PROG == 8
   using io_top = io::g_hooks;
#else
   using io_top = io::g_mustif;
#endif

   using io_in = io_input< IO_INPUT >::type;

   template<>
   bool io_parse< IO_PROG, io_in >( io_in& in, sim_state& root )
   {
#if IO_PROG == 3
      (void)root;
      std::uint64_t value = 0;
      return pegtl::parse< io_top, sim_action, sim_control >( in, value );
#elif IO_PROG == 4
      (void)root;
      std::int64_t value = 0;
      return pegtl::parse< io_top, sim_action, sim_control >( in, value );
#elif IO_PROG == 7
      return pegtl::parse< io_top, sim_action, io::mi_control >( in, root );
#elif IO_PROG == 8
      io::tag_a ta;
      io::tag_b tb;
      return pegtl::parse< io_top, sim_action, sim_control >( in, ta, root, tb );
#else
      return pegtl::parse< io_top, sim_action, sim_control >( in, root );
#endif
   }

}  // namespace sim
