// Seeded generation of cases (grammar table, input bytes, environment plan).
#pragma once

#include <string>

#include "case.hpp"
#include "prng.hpp"

namespace sim
{
   enum Focus : std::uint8_t
   {
      FOCUS_GENERAL,
      FOCUS_CONSUME,  // sub-rules that consume before failing (C02)
      FOCUS_EXC,      // must / raise / try_catch / throwing callbacks (C05, C08)
      FOCUS_STATE,    // state scopes and action / control switches (C13)
      FOCUS_LIMITS,   // limit_bytes / limit_depth / check_bytes (C18)
      FOCUS_STREAM,   // look-ahead heavy atoms, discard shapes (C07)
      FOCUS_TREE,     // parse tree shapes (C12)
   };

   struct GenParams
   {
      unsigned caps = 0;          // intersection of the capabilities of all sets the case will run on
      Focus focus = FOCUS_GENERAL;
      unsigned max_faults = 0;    // 0 = fault-free configuration
      unsigned site_mask = 0;     // allowed fault sites (bit per Site)
      bool discard_shapes = false;
      bool fixed_modes = false;   // A = action, M = optional only (tree / coverage entry points)
      unsigned max_input = 48;
   };

   Case gen_case( std::uint64_t seed, const GenParams& p );

   // environment plan for stream configurations, derived from its own seed
   void gen_stream_plan( std::uint64_t seed, Case& c, unsigned chunk );

   // conservative well-formedness filter (Appendix C of DESIGN.md); not an oracle
   bool well_formed( const Grammar& g, int shape, std::string* why = nullptr );

   std::string describe_case( const Case& c );  // human readable, for evidence samples

}  // namespace sim
