// Fixed grammars of the I/O jobs.
#pragma once

#include <tao/pegtl.hpp>
#include <tao/pegtl/contrib/http.hpp>
#include <tao/pegtl/contrib/integer.hpp>
#include <tao/pegtl/contrib/json.hpp>
#include <tao/pegtl/contrib/add_state.hpp>
#include <tao/pegtl/contrib/control_action.hpp>
#include <tao/pegtl/contrib/raw_string.hpp>
#include <tao/pegtl/contrib/remove_first_state.hpp>
#include <tao/pegtl/contrib/remove_last_states.hpp>
#include <tao/pegtl/contrib/shuffle_states.hpp>

#include <tao/pegtl/must_if.hpp>

#include "sim.hpp"

namespace sim::io
{
   // clang-format off
   // 1: the shipped JSON grammar
   struct g_json : pegtl::seq< pegtl::json::text, pegtl::eof > {};

   // 2: line-oriented statements with look-ahead, backtracking, multi-byte units, raw strings and a discard per line
   struct kw_let : pegtl::keyword< 'l', 'e', 't' > {};
   struct ident : pegtl::identifier {};
   struct number : pegtl::plus< pegtl::digit > {};
   struct numbers : pegtl::list< number, pegtl::one< ',' >, pegtl::blank > {};
   struct rawstr : pegtl::raw_string< '[', '=', ']' > {};
   struct wide : pegtl::utf8::range< 0x80, 0x10ffff > {};
   struct escaped : pegtl::seq< pegtl::one< '\\' >, pegtl::any > {};
   struct qstring : pegtl::seq< pegtl::one< '"' >, pegtl::until< pegtl::one< '"' >, pegtl::sor< escaped, wide, pegtl::not_one< '\n', '\r' > > > > {};
   struct value : pegtl::sor< pegtl::seq< numbers, pegtl::at< pegtl::star< pegtl::blank >, pegtl::eolf > >, rawstr, qstring, pegtl::rep_min_max< 1, 3, pegtl::string< 'o', 'n' > > > {};
   struct assign : pegtl::seq< kw_let, pegtl::plus< pegtl::blank >, ident, pegtl::pad< pegtl::one< '=' >, pegtl::blank >, value > {};
   struct comment : pegtl::seq< pegtl::string< '#', '!' >, pegtl::until< pegtl::at< pegtl::eolf > > > {};
   struct triple : pegtl::seq< pegtl::string< ':', ':' >, pegtl::bytes< 3 >, pegtl::not_at< pegtl::alnum > > {};
   struct stmt : pegtl::sor< assign, comment, triple > {};
   struct line : pegtl::seq< pegtl::star< pegtl::blank >, pegtl::opt< stmt >, pegtl::star< pegtl::blank >, pegtl::eolf > {};
   struct g_lines : pegtl::until< pegtl::eof, line > {};
   // 3: integer rules with and without their converting actions, state = std::uint64_t
   struct u_act : pegtl::seq< pegtl::one< 'u' >, pegtl::unsigned_rule_with_action, pegtl::one< ';' > > {};
   struct m_act : pegtl::seq< pegtl::one< 'm' >, pegtl::maximum_rule_with_action< std::uint64_t, 999 >, pegtl::one< ';' > > {};
   struct u_plain : pegtl::seq< pegtl::one< 'n' >, pegtl::unsigned_rule, pegtl::one< ';' > > {};
   struct m_plain : pegtl::seq< pegtl::one< 'x' >, pegtl::maximum_rule< std::uint64_t, 999 >, pegtl::one< ';' > > {};
   struct u_look : pegtl::seq< pegtl::one< 'l' >, pegtl::at< pegtl::unsigned_rule_with_action >, pegtl::sor< pegtl::seq< pegtl::disable< pegtl::maximum_rule_with_action< std::uint64_t, 999 > >, pegtl::one< ';' > >, pegtl::seq< pegtl::unsigned_rule_with_action, pegtl::one< ';' > > > > {};
   struct g_unsigned : pegtl::until< pegtl::eof, pegtl::sor< u_act, m_act, u_plain, m_plain, u_look, pegtl::one< ' ' > > > {};
   // 4: signed, state = std::int64_t
   struct s_act : pegtl::seq< pegtl::one< 's' >, pegtl::signed_rule_with_action, pegtl::one< ';' > > {};
   struct s_plain : pegtl::seq< pegtl::one< 't' >, pegtl::signed_rule, pegtl::one< ';' > > {};
   struct s_look : pegtl::seq< pegtl::one< 'l' >, pegtl::not_at< pegtl::signed_rule_with_action, pegtl::one< '!' > >, pegtl::opt< pegtl::disable< pegtl::signed_rule_with_action > >, pegtl::one< ';' > > {};
   struct g_signed : pegtl::until< pegtl::eof, pegtl::sor< s_act, s_plain, s_look, pegtl::one< ' ' > > > {};
   // 5: HTTP chunked transfer coding (hand-written chunk rules carrying the chunk size as a private state)
   struct g_chunked : pegtl::seq< pegtl::http::chunked_body, pegtl::eof > {};
   // 6: state scopes with a state type that is default constructible only (the second construction branch of
   //    state<> / change_state / change_states), reached with actions enabled, inside at<> / not_at<>, under disable<>
   struct dstate : sim_state
   {
      dstate()
         : sim_state()
      {}
   };
   struct word : pegtl::plus< pegtl::alpha > {};
   template< int K > struct w_cs : pegtl::seq< word > {};
   template< int K > struct w_css : pegtl::seq< word, pegtl::opt< pegtl::one< '.' > > > {};
   struct st_on : pegtl::seq< pegtl::one< '(' >, w_cs< 0 >, pegtl::one< ')' > > {};
   struct st_at : pegtl::seq< pegtl::one< '[' >, pegtl::at< w_cs< 1 > >, w_cs< 1 >, pegtl::one< ']' > > {};
   struct st_off : pegtl::seq< pegtl::one< '{' >, pegtl::disable< w_css< 0 > >, pegtl::opt< w_css< 1 > >, pegtl::one< '}' > > {};
   struct st_rule : pegtl::seq< pegtl::one< '<' >, pegtl::state< dstate, word >, pegtl::one< '>' > > {};
   struct st_not : pegtl::seq< pegtl::one< '!' >, pegtl::not_at< w_cs< 2 >, pegtl::one< '?' > >, pegtl::opt< w_cs< 2 > > > {};
   template< int K > struct w_as : pegtl::seq< word > {};   // add_state< dstate >
   struct st_add : pegtl::seq< pegtl::one< '+' >, w_as< 0 >, pegtl::opt< pegtl::one< '+' >, pegtl::at< w_as< 1 > >, pegtl::disable< w_as< 2 > > > > {};
   template< int K > struct mw_cas : pegtl::seq< word > {};    // change_action_and_state< act2, dstate >
   template< int K > struct mw_cass : pegtl::seq< word, pegtl::opt< pegtl::one< '.' > > > {};   // change_action_and_states< act2, dstate >
   struct st_cas : pegtl::seq< pegtl::one< '%' >, mw_cas< 0 >, pegtl::opt< pegtl::one< '%' >, pegtl::at< mw_cas< 1 > >, pegtl::disable< mw_cass< 0 > > >, pegtl::opt< pegtl::one< '~' >, mw_cass< 1 > > > {};
   struct g_states : pegtl::until< pegtl::eof, pegtl::sor< st_on, st_at, st_off, st_rule, st_not, st_add, st_cas, pegtl::one< ' ' > > > {};
   // 7: a must_if< Errors >::control layered on the recording control: rules with a custom message raise on ANY local
   //    failure (mi_raise_*), except the one that opts out per rule (mi_msg_b: message used only under must<>)
   struct mi_raise_a : pegtl::one< 'a' > {};
   struct mi_raise_d : pegtl::seq< pegtl::one< 'd' >, pegtl::one< 'e' > > {};
   struct mi_msg_b : pegtl::one< 'b' > {};
   struct mi_plain_c : pegtl::one< 'c' > {};
   struct mi_errors
   {
      template< typename Rule >
      static constexpr const char* message = nullptr;
      template< typename Rule >
      static constexpr bool raise_on_failure = ( message< Rule > != nullptr ) && !std::is_same_v< Rule, mi_msg_b >;
   };
   template<> inline constexpr const char* mi_errors::message< mi_raise_a > = "msg a";
   template<> inline constexpr const char* mi_errors::message< mi_raise_d > = "msg d";
   template<> inline constexpr const char* mi_errors::message< mi_msg_b > = "msg b";
   template< typename Rule >
   using mi_control = typename pegtl::must_if< mi_errors, sim_control, false >::template control< Rule >;
   struct mi_group : pegtl::seq< pegtl::one< '(' >, mi_raise_d, pegtl::one< ')' > > {};
   struct mi_hash : pegtl::seq< pegtl::one< '#' >, mi_raise_a > {};
   struct mi_optb : pegtl::seq< pegtl::one< '[' >, pegtl::opt< mi_msg_b >, pegtl::star< mi_plain_c >, pegtl::one< ']' > > {};
   struct mi_mustb : pegtl::seq< pegtl::one< '{' >, pegtl::must< mi_msg_b >, pegtl::one< '}' > > {};
   struct mi_mustc : pegtl::seq< pegtl::one< '<' >, pegtl::must< mi_plain_c >, pegtl::one< '>' > > {};
   struct mi_look : pegtl::seq< pegtl::one< '?' >, pegtl::at< mi_msg_b >, mi_msg_b > {};
   struct g_mustif : pegtl::until< pegtl::eof, pegtl::sor< mi_group, mi_hash, mi_optb, mi_mustb, mi_mustc, mi_look, pegtl::one< ' ' > > > {};
   // 8: contrib control adaptors (remove_first_state, remove_last_states, rotate_states_right / _left, reverse_states) layered on a
   //    recording control that knows in which order it must receive the states, and actions derived from
   //    control_action, whose own start / success / failure / unwind hooks must form the same balanced protocol
   struct tag_a {};
   struct tag_b {};
   template< typename T >
   constexpr unsigned st_code()
   {
      using U = std::decay_t< T >;
      if constexpr( std::is_same_v< U, tag_a > ) {
         return 1;
      }
      else if constexpr( std::is_base_of_v< sim_state, U > ) {
         return 2;
      }
      else if constexpr( std::is_same_v< U, tag_b > ) {
         return 3;
      }
      else {
         return 9;
      }
   }
   template< typename... St >
   constexpr unsigned st_sig()
   {
      unsigned s = 0;
      ( ( s = s * 10 + st_code< St >() ), ... );
      return s;
   }
   // recording control of family 3 (has unwind) that checks the order of the states it is handed
   template< typename Rule, unsigned Sig >
   struct exp_ctl
      : ctl_impl< Rule, 3 >
   {
      using base = ctl_impl< Rule, 3 >;
      template< typename In, typename... St >
      static void order( const In& in )
      {
         if constexpr( st_sig< St... >() != Sig ) {
            soft_violation( 8, st_sig< St... >(), snap( in ) );
         }
      }
      template< typename In, typename... St >
      static void start( const In& in, St&&... st )
      {
         order< In, St... >( in );
         base::start( in, st... );
      }
      template< typename In, typename... St >
      static void success( const In& in, St&&... st )
      {
         order< In, St... >( in );
         base::success( in, st... );
      }
      template< typename In, typename... St >
      static void failure( const In& in, St&&... st )
      {
         order< In, St... >( in );
         base::failure( in, st... );
      }
      template< typename In, typename... St >
      static void unwind( const In& in, St&&... st )
      {
         order< In, St... >( in );
         log_event( Ev::UNWIND, rid< Rule >(), 0, 0, 3, snap( in ), sid_of( st... ) );
      }
      template< typename In, typename... St >
      [[noreturn]] static void raise( const In& in, St&&... st )
      {
         order< In, St... >( in );
         base::raise( in, st... );
      }
      template< template< typename... > class Action, typename Iterator, typename In, typename... St >
      static auto apply( const Iterator& begin, const In& in, St&&... st )
         -> decltype( base::template apply< Action >( begin, in, st... ) )
      {
         order< In, St... >( in );
         return base::template apply< Action >( begin, in, st... );
      }
      template< template< typename... > class Action, typename In, typename... St >
      static auto apply0( const In& in, St&&... st )
         -> decltype( base::template apply0< Action >( in, st... ) )
      {
         order< In, St... >( in );
         return base::template apply0< Action >( in, st... );
      }
   };
   // the run starts with the states ( tag_a, sim_state, tag_b ) = 123
   template< typename Rule > struct adapt_rfs : pegtl::remove_first_state< exp_ctl< Rule, 23 > > {};
   template< typename Rule > struct adapt_rr : pegtl::rotate_states_right< exp_ctl< Rule, 312 > > {};
   template< typename Rule > struct adapt_rl : pegtl::rotate_states_left< exp_ctl< Rule, 231 > > {};
   template< typename Rule > struct adapt_rev : pegtl::reverse_states< exp_ctl< Rule, 321 > > {};
   template< typename Rule > struct adapt_rr2 : pegtl::rotate_states_right< exp_ctl< Rule, 231 >, 2 > {};
   template< typename Rule > struct adapt_rls : pegtl::remove_last_states< exp_ctl< Rule, 12 >, 1 > {};

   struct hk_word : pegtl::plus< pegtl::alpha > {};    // void apply
   struct hk_num : pegtl::plus< pegtl::digit > {};     // bool apply
   struct hk_dot : pegtl::one< '.' > {};               // void apply0
   struct hk_bang : pegtl::one< '!' > {};              // bool apply0
   struct hk_item : pegtl::sor< hk_word, hk_num, hk_dot, hk_bang > {};
   struct hk_body : pegtl::seq< pegtl::star< hk_item >, pegtl::opt< pegtl::one< '?' >, pegtl::must< hk_num > >, pegtl::not_at< pegtl::one< '#' > > > {};   // fails locally in front of '#'
   template< int K > struct hk_ca : pegtl::seq< hk_body > {};   // action derived from control_action: K = 0 with unwind(), 1 without
   struct hk_rfs : pegtl::seq< pegtl::one< '(' >, pegtl::control< adapt_rfs, hk_ca< 0 > >, pegtl::one< ')' > > {};
   struct hk_rr : pegtl::seq< pegtl::one< '[' >, pegtl::control< adapt_rr, hk_ca< 1 > >, pegtl::one< ']' > > {};
   struct hk_rl : pegtl::seq< pegtl::one< '{' >, pegtl::control< adapt_rl, hk_body >, pegtl::one< '}' > > {};
   struct hk_rev : pegtl::seq< pegtl::one< '<' >, pegtl::control< adapt_rev, pegtl::try_catch_return_false< hk_ca< 0 > > >, pegtl::one< '>' > > {};
   struct hk_rr2 : pegtl::seq< pegtl::one< '|' >, pegtl::control< adapt_rr2, hk_body >, pegtl::one< '|' > > {};
   struct hk_rls : pegtl::seq< pegtl::one< '~' >, pegtl::control< adapt_rls, hk_ca< 0 > >, pegtl::one< '~' > > {};
   struct hk_plain : pegtl::seq< pegtl::one< '/' >, hk_ca< 0 >, pegtl::one< '/' > > {};
   struct hk_look : pegtl::seq< pegtl::one< '@' >, pegtl::at< hk_ca< 1 > >, pegtl::opt< pegtl::one< '@' >, pegtl::disable< hk_ca< 0 > > >, hk_ca< 1 >, pegtl::one< '@' > > {};
   struct hk_safe : pegtl::try_catch_any_return_false< pegtl::sor< hk_rfs, hk_rr, hk_rl, hk_rev, hk_rr2, hk_rls, hk_plain, hk_look > > {};
   struct g_hooks : pegtl::until< pegtl::eof, pegtl::sor< hk_safe, pegtl::seq< pegtl::one< '$' >, pegtl::sor< hk_rfs, hk_rr, hk_plain > >, pegtl::any > > {};

   template< int K >
   struct ca_hooks
      : pegtl::control_action
   {
      static constexpr int family = 1;
      template< typename In, typename... St >
      static void start( const In& in, St&&... st )
      {
         log_event( Ev::CA_START, rid< hk_ca< K > >(), 0, 1, 0, snap( in ), sid_of( st... ) );
      }
      template< typename In, typename... St >
      static void success( const In& in, St&&... st )
      {
         log_event( Ev::CA_SUCCESS, rid< hk_ca< K > >(), 0, 1, 0, snap( in ), sid_of( st... ) );
      }
      template< typename In, typename... St >
      static void failure( const In& in, St&&... st )
      {
         log_event( Ev::CA_FAILURE, rid< hk_ca< K > >(), 0, 1, 0, snap( in ), sid_of( st... ) );
      }
   };
   struct ca_hooks_unwind
      : ca_hooks< 0 >
   {
      template< typename In, typename... St >
      static void unwind( const In& in, St&&... st )
      {
         log_event( Ev::CA_UNWIND, rid< hk_ca< 0 > >(), 0, 1, 0, snap( in ), sid_of( st... ) );
      }
   };
   // 11: parse_nested: the action of n_inc< K > parses the text between '<' and '>' as a grammar of its own, with the
   //     position of the n_inc match as ambient position. std::exception-derived exceptions of the inner run come back
   //     as a parse_error at the ambient position that nests them (message: the inner top rule's own error_message for
   //     K = 1, the default naming it for K = 0); anything else passes unchanged.
   struct n_word : pegtl::plus< pegtl::alpha > {};
   struct n_item : pegtl::sor< n_word, pegtl::seq< pegtl::one< '!' >, pegtl::must< pegtl::digit > >, pegtl::one< '.' > > {};
   struct n_inner : pegtl::seq< pegtl::star< n_item >, pegtl::eof > {};
   struct n_inner_msg : pegtl::seq< pegtl::star< n_item >, pegtl::eof >
   {
      static constexpr const char* error_message = "inner grammar failed";
   };
   template< int K > struct n_inc : pegtl::seq< pegtl::one< '<' >, pegtl::star< pegtl::not_one< '>', '<' > >, pegtl::one< '>' > > {};
   struct n_safe_pe : pegtl::try_catch_return_false< pegtl::one< '?' >, n_inc< 0 > > {};
   struct n_safe_std : pegtl::try_catch_std_return_false< pegtl::one< '$' >, n_inc< 1 > > {};
   struct n_renest : pegtl::try_catch_raise_nested< pegtl::one< '^' >, n_inc< 0 > > {};
   struct g_nest : pegtl::until< pegtl::eof, pegtl::sor< n_inc< 0 >, pegtl::seq< pegtl::one< '#' >, n_inc< 1 > >, n_safe_pe, n_safe_std, n_renest, n_word, pegtl::any > > {};

   template< int K > struct n_call : pegtl::success {};   // not part of any grammar: names the parse_nested call in the history

   template< int K >
   struct nest_action
   {
      static constexpr int family = 1;
      template< typename AI, typename... St >
      static void apply( const AI& ai, St&&... st )
      {
         const Snap b = action_snap( ai );
         log_action( Ev::A_APPLY, rid< n_inc< K > >(), 1, b, b.byte + static_cast< std::uint32_t >( ai.size() ), span_hash( ai, b ), sid_of( st... ), true );
         const pegtl::position p = ai.position();
         // the inner input is the bracketed part of the outer data itself, numbered like the outer input
         pegtl::memory_input< pegtl::tracking_mode::eager, mem_eol, std::string > inner( ai.begin() + 1, ai.end() - 1, "sim", p.byte + 1, p.line, p.column + 1 );
         using top_t = std::conditional_t< K == 0, n_inner, n_inner_msg >;
         // the call is recorded as an invocation of its own (n_call< K >, a catcher of std::exception that nests)
         Snap at = b;
         at.flags |= F_SUB;  // like every event of the stock inputs: no end / depth bookkeeping
         const std::uint32_t r = rid< n_call< K > >();
         log_event( Ev::ENTER, r, F_ACTION, 1, 1, at, sid_of( st... ) );
         try {
            on_enter();
            const bool result = pegtl::parse_nested< top_t, sim_action, sim_control >( p, inner, st... );
            on_leave();
            log_event( Ev::EXIT, r, F_ACTION | ( result ? F_RESULT : 0 ), 1, 1, at, sid_of( st... ) );
         }
         catch( ... ) {
            on_leave();
            const std::uint32_t xi = classify_current_exception();
            log_event( Ev::EXC, r, F_ACTION, 1, 1, at, sid_of( st... ), xi );
            throw;
         }
      }
   };
   // clang-format on
}  // namespace sim::io

namespace sim
{
   template< int K >
   inline constexpr bool is_dispatch< io::n_call< K > > = true;  // no hooks expected for the pseudo rule

   // clang-format off
   template<> struct sim_action< io::line > : pegtl::discard_input { static constexpr int family = 1; };
   template< int K > struct sim_action< io::w_cs< K > > : pegtl::change_state< io::dstate > { static constexpr int family = 1; };
   template< int K > struct sim_action< io::w_css< K > > : pegtl::change_states< io::dstate >
   {
      static constexpr int family = 1;
      template< typename In, typename... Outer >
      static void success( const In& in, io::dstate& s, Outer&&... outer )
      {
         s.success( in, outer... );
      }
   };
   template< int K > struct sim_action< io::mw_cas< K > > : pegtl::change_action_and_state< act2, io::dstate > { static constexpr int family = 1; };
   template< int K > struct sim_action< io::mw_cass< K > > : pegtl::change_action_and_states< act2, io::dstate >
   {
      static constexpr int family = 1;
      template< typename In, typename... Outer >
      static void success( const In& in, io::dstate& s, Outer&&... outer )
      {
         s.success( in, outer... );
      }
   };
   // as in the wired grammar: the action switched TO carries a switch of its own for the same rule
   template< int K > struct act2< io::mw_cas< K > > : pegtl::enable_action { static constexpr int family = 2; };
   template< int K > struct act2< io::mw_cass< K > > : pegtl::disable_action { static constexpr int family = 2; };
   template< int K > struct sim_action< io::w_as< K > > : pegtl::add_state< io::dstate >
   {
      static constexpr int family = 1;
      template< typename In, typename... Outer >
      static void success( const In& in, io::dstate& s, Outer&&... outer )
      {
         s.success( in, outer... );
      }
   };
   template<> struct sim_action< io::hk_ca< 0 > > : io::ca_hooks_unwind {};
   template<> struct sim_action< io::hk_ca< 1 > > : io::ca_hooks< 1 > {};
   template< int K > struct sim_action< io::n_inc< K > > : io::nest_action< K > {};
   template<> inline constexpr int action_kind_1< io::n_word > = 1;
   template<> inline constexpr int action_kind_1< io::hk_word > = 1;
   template<> inline constexpr int action_kind_1< io::hk_num > = 2;
   template<> inline constexpr int action_kind_1< io::hk_dot > = 3;
   template<> inline constexpr int action_kind_1< io::hk_bang > = 4;
   template<> inline constexpr int action_kind_1< io::word > = 1;
   template<> inline constexpr int action_kind_1< io::number > = 1;
   template<> inline constexpr int action_kind_1< io::ident > = 1;
   template<> inline constexpr int action_kind_1< io::kw_let > = 3;
   template<> inline constexpr int action_kind_1< io::qstring > = 2;
   template<> inline constexpr int action_kind_1< io::rawstr > = 1;
   template<> inline constexpr int action_kind_1< pegtl::json::number > = 1;
   template<> inline constexpr int action_kind_1< pegtl::json::key > = 1;
   template<> inline constexpr int action_kind_1< pegtl::json::true_ > = 3;
   // clang-format on
}  // namespace sim
