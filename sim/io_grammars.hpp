// Fixed grammars of the I/O jobs.
#pragma once

#include <tao/pegtl.hpp>
#include <tao/pegtl/contrib/http.hpp>
#include <tao/pegtl/contrib/integer.hpp>
#include <tao/pegtl/contrib/json.hpp>
#include <tao/pegtl/contrib/raw_string.hpp>

#include <tao/pegtl/must_if.hpp>

#include "sim.hpp"

namespace sim::io
{
   // clang-format off
   // 1: the shipped JSON grammar
   struct g_json : pegtl::seq< pegtl::json::text, pegtl::eof > {};

   // 2: line-oriented statements with look-ahead, backtracking, multi-byte units, raw strings and a discard per line
   struct kw_let : pegtl::keyword< 'l', 'e', 't' > {};
   struct ident : pegtl::identifier {};
   struct number : pegtl::plus< pegtl::digit > {};
   struct numbers : pegtl::list< number, pegtl::one< ',' >, pegtl::blank > {};
   struct rawstr : pegtl::raw_string< '[', '=', ']' > {};
   struct wide : pegtl::utf8::range< 0x80, 0x10ffff > {};
   struct escaped : pegtl::seq< pegtl::one< '\\' >, pegtl::any > {};
   struct qstring : pegtl::seq< pegtl::one< '"' >, pegtl::until< pegtl::one< '"' >, pegtl::sor< escaped, wide, pegtl::not_one< '\n', '\r' > > > > {};
   struct value : pegtl::sor< pegtl::seq< numbers, pegtl::at< pegtl::star< pegtl::blank >, pegtl::eolf > >, rawstr, qstring, pegtl::rep_min_max< 1, 3, pegtl::string< 'o', 'n' > > > {};
   struct assign : pegtl::seq< kw_let, pegtl::plus< pegtl::blank >, ident, pegtl::pad< pegtl::one< '=' >, pegtl::blank >, value > {};
   struct comment : pegtl::seq< pegtl::string< '#', '!' >, pegtl::until< pegtl::at< pegtl::eolf > > > {};
   struct triple : pegtl::seq< pegtl::string< ':', ':' >, pegtl::bytes< 3 >, pegtl::not_at< pegtl::alnum > > {};
   struct stmt : pegtl::sor< assign, comment, triple > {};
   struct line : pegtl::seq< pegtl::star< pegtl::blank >, pegtl::opt< stmt >, pegtl::star< pegtl::blank >, pegtl::eolf > {};
   struct g_lines : pegtl::until< pegtl::eof, line > {};
   // 3: integer rules with and without their converting actions, state = std::uint64_t
   struct u_act : pegtl::seq< pegtl::one< 'u' >, pegtl::unsigned_rule_with_action, pegtl::one< ';' > > {};
   struct m_act : pegtl::seq< pegtl::one< 'm' >, pegtl::maximum_rule_with_action< std::uint64_t, 999 >, pegtl::one< ';' > > {};
   struct u_plain : pegtl::seq< pegtl::one< 'n' >, pegtl::unsigned_rule, pegtl::one< ';' > > {};
   struct m_plain : pegtl::seq< pegtl::one< 'x' >, pegtl::maximum_rule< std::uint64_t, 999 >, pegtl::one< ';' > > {};
   struct u_look : pegtl::seq< pegtl::one< 'l' >, pegtl::at< pegtl::unsigned_rule_with_action >, pegtl::sor< pegtl::seq< pegtl::disable< pegtl::maximum_rule_with_action< std::uint64_t, 999 > >, pegtl::one< ';' > >, pegtl::seq< pegtl::unsigned_rule_with_action, pegtl::one< ';' > > > > {};
   struct g_unsigned : pegtl::until< pegtl::eof, pegtl::sor< u_act, m_act, u_plain, m_plain, u_look, pegtl::one< ' ' > > > {};
   // 4: signed, state = std::int64_t
   struct s_act : pegtl::seq< pegtl::one< 's' >, pegtl::signed_rule_with_action, pegtl::one< ';' > > {};
   struct s_plain : pegtl::seq< pegtl::one< 't' >, pegtl::signed_rule, pegtl::one< ';' > > {};
   struct s_look : pegtl::seq< pegtl::one< 'l' >, pegtl::not_at< pegtl::signed_rule_with_action, pegtl::one< '!' > >, pegtl::opt< pegtl::disable< pegtl::signed_rule_with_action > >, pegtl::one< ';' > > {};
   struct g_signed : pegtl::until< pegtl::eof, pegtl::sor< s_act, s_plain, s_look, pegtl::one< ' ' > > > {};
   // 5: HTTP chunked transfer coding (hand-written chunk rules carrying the chunk size as a private state)
   struct g_chunked : pegtl::seq< pegtl::http::chunked_body, pegtl::eof > {};
   // 6: state scopes with a state type that is default constructible only (the second construction branch of
   //    state<> / change_state / change_states), reached with actions enabled, inside at<> / not_at<>, under disable<>
   struct dstate : sim_state
   {
      dstate()
         : sim_state()
      {}
   };
   struct word : pegtl::plus< pegtl::alpha > {};
   template< int K > struct w_cs : pegtl::seq< word > {};
   template< int K > struct w_css : pegtl::seq< word, pegtl::opt< pegtl::one< '.' > > > {};
   struct st_on : pegtl::seq< pegtl::one< '(' >, w_cs< 0 >, pegtl::one< ')' > > {};
   struct st_at : pegtl::seq< pegtl::one< '[' >, pegtl::at< w_cs< 1 > >, w_cs< 1 >, pegtl::one< ']' > > {};
   struct st_off : pegtl::seq< pegtl::one< '{' >, pegtl::disable< w_css< 0 > >, pegtl::opt< w_css< 1 > >, pegtl::one< '}' > > {};
   struct st_rule : pegtl::seq< pegtl::one< '<' >, pegtl::state< dstate, word >, pegtl::one< '>' > > {};
   struct st_not : pegtl::seq< pegtl::one< '!' >, pegtl::not_at< w_cs< 2 >, pegtl::one< '?' > >, pegtl::opt< w_cs< 2 > > > {};
   struct g_states : pegtl::until< pegtl::eof, pegtl::sor< st_on, st_at, st_off, st_rule, st_not, pegtl::one< ' ' > > > {};
   // 7: a must_if< Errors >::control layered on the recording control: rules with a custom message raise on ANY local
   //    failure (mi_raise_*), except the one that opts out per rule (mi_msg_b: message used only under must<>)
   struct mi_raise_a : pegtl::one< 'a' > {};
   struct mi_raise_d : pegtl::seq< pegtl::one< 'd' >, pegtl::one< 'e' > > {};
   struct mi_msg_b : pegtl::one< 'b' > {};
   struct mi_plain_c : pegtl::one< 'c' > {};
   struct mi_errors
   {
      template< typename Rule >
      static constexpr const char* message = nullptr;
      template< typename Rule >
      static constexpr bool raise_on_failure = ( message< Rule > != nullptr ) && !std::is_same_v< Rule, mi_msg_b >;
   };
   template<> inline constexpr const char* mi_errors::message< mi_raise_a > = "msg a";
   template<> inline constexpr const char* mi_errors::message< mi_raise_d > = "msg d";
   template<> inline constexpr const char* mi_errors::message< mi_msg_b > = "msg b";
   template< typename Rule >
   using mi_control = typename pegtl::must_if< mi_errors, sim_control, false >::template control< Rule >;
   struct mi_group : pegtl::seq< pegtl::one< '(' >, mi_raise_d, pegtl::one< ')' > > {};
   struct mi_hash : pegtl::seq< pegtl::one< '#' >, mi_raise_a > {};
   struct mi_optb : pegtl::seq< pegtl::one< '[' >, pegtl::opt< mi_msg_b >, pegtl::star< mi_plain_c >, pegtl::one< ']' > > {};
   struct mi_mustb : pegtl::seq< pegtl::one< '{' >, pegtl::must< mi_msg_b >, pegtl::one< '}' > > {};
   struct mi_mustc : pegtl::seq< pegtl::one< '<' >, pegtl::must< mi_plain_c >, pegtl::one< '>' > > {};
   struct mi_look : pegtl::seq< pegtl::one< '?' >, pegtl::at< mi_msg_b >, mi_msg_b > {};
   struct g_mustif : pegtl::until< pegtl::eof, pegtl::sor< mi_group, mi_hash, mi_optb, mi_mustb, mi_mustc, mi_look, pegtl::one< ' ' > > > {};
   // clang-format on
}  // namespace sim::io

namespace sim
{
   // clang-format off
   template<> struct sim_action< io::line > : pegtl::discard_input { static constexpr int family = 1; };
   template< int K > struct sim_action< io::w_cs< K > > : pegtl::change_state< io::dstate > { static constexpr int family = 1; };
   template< int K > struct sim_action< io::w_css< K > > : pegtl::change_states< io::dstate >
   {
      static constexpr int family = 1;
      template< typename In, typename... Outer >
      static void success( const In& in, io::dstate& s, Outer&&... outer )
      {
         s.success( in, outer... );
      }
   };
   template<> inline constexpr int action_kind_1< io::word > = 1;
   template<> inline constexpr int action_kind_1< io::number > = 1;
   template<> inline constexpr int action_kind_1< io::ident > = 1;
   template<> inline constexpr int action_kind_1< io::kw_let > = 3;
   template<> inline constexpr int action_kind_1< io::qstring > = 2;
   template<> inline constexpr int action_kind_1< io::rawstr > = 1;
   template<> inline constexpr int action_kind_1< pegtl::json::number > = 1;
   template<> inline constexpr int action_kind_1< pegtl::json::key > = 1;
   template<> inline constexpr int action_kind_1< pegtl::json::true_ > = 3;
   // clang-format on
}  // namespace sim
