// Fixed grammars of the I/O jobs.
#pragma once

#include <tao/pegtl.hpp>
#include <tao/pegtl/contrib/http.hpp>
#include <tao/pegtl/contrib/integer.hpp>
#include <tao/pegtl/contrib/json.hpp>
#include <tao/pegtl/contrib/raw_string.hpp>

#include "sim.hpp"

namespace sim::io
{
   // clang-format off
   // 1: the shipped JSON grammar
   struct g_json : pegtl::seq< pegtl::json::text, pegtl::eof > {};

   // 2: line-oriented statements with look-ahead, backtracking, multi-byte units, raw strings and a discard per line
   struct kw_let : pegtl::keyword< 'l', 'e', 't' > {};
   struct ident : pegtl::identifier {};
   struct number : pegtl::plus< pegtl::digit > {};
   struct numbers : pegtl::list< number, pegtl::one< ',' >, pegtl::blank > {};
   struct rawstr : pegtl::raw_string< '[', '=', ']' > {};
   struct wide : pegtl::utf8::range< 0x80, 0x10ffff > {};
   struct escaped : pegtl::seq< pegtl::one< '\\' >, pegtl::any > {};
   struct qstring : pegtl::seq< pegtl::one< '"' >, pegtl::until< pegtl::one< '"' >, pegtl::sor< escaped, wide, pegtl::not_one< '\n', '\r' > > > > {};
   struct value : pegtl::sor< pegtl::seq< numbers, pegtl::at< pegtl::star< pegtl::blank >, pegtl::eolf > >, rawstr, qstring, pegtl::rep_min_max< 1, 3, pegtl::string< 'o', 'n' > > > {};
   struct assign : pegtl::seq< kw_let, pegtl::plus< pegtl::blank >, ident, pegtl::pad< pegtl::one< '=' >, pegtl::blank >, value > {};
   struct comment : pegtl::seq< pegtl::string< '#', '!' >, pegtl::until< pegtl::at< pegtl::eolf > > > {};
   struct triple : pegtl::seq< pegtl::string< ':', ':' >, pegtl::bytes< 3 >, pegtl::not_at< pegtl::alnum > > {};
   struct stmt : pegtl::sor< assign, comment, triple > {};
   struct line : pegtl::seq< pegtl::star< pegtl::blank >, pegtl::opt< stmt >, pegtl::star< pegtl::blank >, pegtl::eolf > {};
   struct g_lines : pegtl::until< pegtl::eof, line > {};
   // 3: integer rules with and without their converting actions, state = std::uint64_t
   struct u_act : pegtl::seq< pegtl::one< 'u' >, pegtl::unsigned_rule_with_action, pegtl::one< ';' > > {};
   struct m_act : pegtl::seq< pegtl::one< 'm' >, pegtl::maximum_rule_with_action< std::uint64_t, 999 >, pegtl::one< ';' > > {};
   struct u_plain : pegtl::seq< pegtl::one< 'n' >, pegtl::unsigned_rule, pegtl::one< ';' > > {};
   struct m_plain : pegtl::seq< pegtl::one< 'x' >, pegtl::maximum_rule< std::uint64_t, 999 >, pegtl::one< ';' > > {};
   struct u_look : pegtl::seq< pegtl::one< 'l' >, pegtl::at< pegtl::unsigned_rule_with_action >, pegtl::sor< pegtl::seq< pegtl::disable< pegtl::maximum_rule_with_action< std::uint64_t, 999 > >, pegtl::one< ';' > >, pegtl::seq< pegtl::unsigned_rule_with_action, pegtl::one< ';' > > > > {};
   struct g_unsigned : pegtl::until< pegtl::eof, pegtl::sor< u_act, m_act, u_plain, m_plain, u_look, pegtl::one< ' ' > > > {};
   // 4: signed, state = std::int64_t
   struct s_act : pegtl::seq< pegtl::one< 's' >, pegtl::signed_rule_with_action, pegtl::one< ';' > > {};
   struct s_plain : pegtl::seq< pegtl::one< 't' >, pegtl::signed_rule, pegtl::one< ';' > > {};
   struct s_look : pegtl::seq< pegtl::one< 'l' >, pegtl::not_at< pegtl::signed_rule_with_action, pegtl::one< '!' > >, pegtl::opt< pegtl::disable< pegtl::signed_rule_with_action > >, pegtl::one< ';' > > {};
   struct g_signed : pegtl::until< pegtl::eof, pegtl::sor< s_act, s_plain, s_look, pegtl::one< ' ' > > > {};
   // 5: HTTP chunked transfer coding (hand-written chunk rules carrying the chunk size as a private state)
   struct g_chunked : pegtl::seq< pegtl::http::chunked_body, pegtl::eof > {};
   // clang-format on
}  // namespace sim::io

namespace sim
{
   // clang-format off
   template<> struct sim_action< io::line > : pegtl::discard_input { static constexpr int family = 1; };
   template<> inline constexpr int action_kind_1< io::number > = 1;
   template<> inline constexpr int action_kind_1< io::ident > = 1;
   template<> inline constexpr int action_kind_1< io::kw_let > = 3;
   template<> inline constexpr int action_kind_1< io::qstring > = 2;
   template<> inline constexpr int action_kind_1< io::rawstr > = 1;
   template<> inline constexpr int action_kind_1< pegtl::json::number > = 1;
   template<> inline constexpr int action_kind_1< pegtl::json::key > = 1;
   template<> inline constexpr int action_kind_1< pegtl::json::true_ > = 3;
   // clang-format on
}  // namespace sim
