// Fixed grammars of the I/O jobs.
#pragma once

#include <tao/pegtl.hpp>
#include <tao/pegtl/contrib/json.hpp>
#include <tao/pegtl/contrib/raw_string.hpp>

#include "sim.hpp"

namespace sim::io
{
   // clang-format off
   // 1: the shipped JSON grammar
   struct g_json : pegtl::seq< pegtl::json::text, pegtl::eof > {};

   // 2: line-oriented statements with look-ahead, backtracking, multi-byte units, raw strings and a discard per line
   struct kw_let : pegtl::keyword< 'l', 'e', 't' > {};
   struct ident : pegtl::identifier {};
   struct number : pegtl::plus< pegtl::digit > {};
   struct numbers : pegtl::list< number, pegtl::one< ',' >, pegtl::blank > {};
   struct rawstr : pegtl::raw_string< '[', '=', ']' > {};
   struct wide : pegtl::utf8::range< 0x80, 0x10ffff > {};
   struct escaped : pegtl::seq< pegtl::one< '\\' >, pegtl::any > {};
   struct qstring : pegtl::seq< pegtl::one< '"' >, pegtl::until< pegtl::one< '"' >, pegtl::sor< escaped, wide, pegtl::not_one< '\n', '\r' > > > > {};
   struct value : pegtl::sor< pegtl::seq< numbers, pegtl::at< pegtl::star< pegtl::blank >, pegtl::eolf > >, rawstr, qstring, pegtl::rep_min_max< 1, 3, pegtl::string< 'o', 'n' > > > {};
   struct assign : pegtl::seq< kw_let, pegtl::plus< pegtl::blank >, ident, pegtl::pad< pegtl::one< '=' >, pegtl::blank >, value > {};
   struct comment : pegtl::seq< pegtl::string< '#', '!' >, pegtl::until< pegtl::at< pegtl::eolf > > > {};
   struct triple : pegtl::seq< pegtl::string< ':', ':' >, pegtl::bytes< 3 >, pegtl::not_at< pegtl::alnum > > {};
   struct stmt : pegtl::sor< assign, comment, triple > {};
   struct line : pegtl::seq< pegtl::star< pegtl::blank >, pegtl::opt< stmt >, pegtl::star< pegtl::blank >, pegtl::eolf > {};
   struct g_lines : pegtl::until< pegtl::eof, line > {};
   // clang-format on
}  // namespace sim::io

namespace sim
{
   // clang-format off
   template<> struct sim_action< io::line > : pegtl::discard_input { static constexpr int family = 1; };
   template<> inline constexpr int action_kind_1< io::number > = 1;
   template<> inline constexpr int action_kind_1< io::ident > = 1;
   template<> inline constexpr int action_kind_1< io::kw_let > = 3;
   template<> inline constexpr int action_kind_1< io::qstring > = 2;
   template<> inline constexpr int action_kind_1< io::rawstr > = 1;
   template<> inline constexpr int action_kind_1< pegtl::json::number > = 1;
   template<> inline constexpr int action_kind_1< pegtl::json::key > = 1;
   template<> inline constexpr int action_kind_1< pegtl::json::true_ > = 3;
   // clang-format on
}  // namespace sim
