// I/O jobs: fixed grammars parsed through PEGTL's stock input classes (string / argv / read / mmap /
// file / cstream / istream inputs) whose libc / kernel / iostream environment is simulated.
#pragma once

#include <cstdio>
#include <istream>
#include <memory>
#include <streambuf>
#include <string>

#include "case.hpp"

namespace sim
{
   // input classes of I/O jobs (values of Job::set / SetId)
   constexpr int IO_FIRST = 20;
   enum IoClass : std::uint8_t
   {
      IO_MEM = 20,       // memory_input< eager >  (reference)
      IO_LAZY = 21,      // memory_input< lazy >
      IO_STRING = 22,    // string_input
      IO_ARGV = 23,      // argv_input
      IO_READ = 24,      // read_input( path )           real temp file, fopen wrapped
      IO_READ_FP = 25,   // read_input( FILE*, path )    fopencookie: seek / read may fail or fall short
      IO_MMAP = 26,      // mmap_input( path )           real temp file, open / fstat / mmap wrapped, guard page behind the mapping
      IO_FILE = 27,      // file_input( path )
      IO_CSTREAM = 28,   // cstream_input over a fopencookie FILE*
      IO_ISTREAM = 29,   // istream_input over a simulated streambuf
      IO_BUF_CR = 30,    // buffer_input< sim_reader, eol::cr, ..., 4 >   (reference: memory_input with the same policy)
      IO_BUF_CRLF = 31,
      IO_BUF_CR_CRLF = 32,
      IO_BUF_LF = 33,
      IO_MEM_CR = 34,    // references of 30..33
      IO_MEM_CRLF = 35,
      IO_MEM_CR_CRLF = 36,
      IO_MEM_LF = 37,
      IO_LAST = 37
   };

   constexpr int IO_PROGS = 5;  // programs drawn for C07 I/O jobs; 6 = state scopes with a default-constructible-only state (C13 jobs)
   constexpr int IO_PROG_STATES = 6;
   constexpr int IO_PROG_MUSTIF = 7;
   constexpr int IO_PROG_TRACE = 9;   // 9 / 10: the tracer over the recording control (JSON grammar; hidden internals / all rules)
   constexpr int IO_PROG_NESTED = 11;  // parse_nested from an action (C05 jobs)
   constexpr int IO_PROG_HOOKS = 8;   // contrib control adaptors and control_action (C08 jobs)  // must_if control with per-rule messages (C05 jobs)  // 1 JSON text, 2 line-oriented statements, 3 unsigned / 4 signed integer rules with actions, 5 HTTP chunked body

   RunResult run_io( int io_class, const Case& c );
   inline int io_reference_of( int io_class )
   {
      return ( io_class >= IO_BUF_CR && io_class <= IO_BUF_LF ) ? io_class + 4 : IO_MEM;
   }

   // environment
   std::FILE* make_cookie_file( bool seekable );  // reads W.xdata / W.xlen per the plan in W.reads / W.faults
   std::string temp_file_with( const std::string& bytes );
   void io_cleanup();

   class sim_streambuf : public std::streambuf
   {
   protected:
      std::streamsize xsgetn( char* s, std::streamsize n ) override;
      int_type underflow() override;
   };

   std::string gen_io_input( std::uint64_t seed, int prog, int io_class );

}  // namespace sim
