// World: everything the simulator owns for one run - plan, counters, recorded history.
// Single-threaded; one global instance per process (PEGTL callbacks are static
// functions, so the world must be reachable without an object).
#pragma once

#include <cstddef>
#include <cstdint>
#include <cstring>
#include <stdexcept>
#include <string>
#include <string_view>
#include <vector>

#include "prng.hpp"

namespace sim
{
   // ---------------------------------------------------------------- limits
   constexpr int NODES = 8;        // wired named rules node<0..NODES-1>
   constexpr int MINIS = 3;        // wired rules of the restricted sub-grammar mini<0..MINIS-1>
   constexpr std::size_t GUARD = 64;  // poisoned bytes on both sides of the memory arena
   constexpr std::size_t ARENA = 20480;

   // ---------------------------------------------------------------- capabilities of an instantiation set
   constexpr unsigned CAP_MEMORY = 1;    // whole input in memory (everything)
   constexpr unsigned CAP_SETEND = 2;    // input has private_set_end (limit_bytes)
   constexpr unsigned CAP_DEPTH = 4;     // input has make_depth_guard (limit_depth)
   constexpr unsigned CAP_COLUMN = 8;    // input has column() (bol)
   constexpr unsigned CAP_STATE = 16;    // the states are exactly ( sim_state& )
   constexpr unsigned CAP_PLAINCTL = 32; // control is sim_control / ctl2 themselves (limit_* raise through Control< limit_* >)
   constexpr unsigned CAP_REMATCH = 64;  // rematch / minus sub-inputs are instantiated for this set
   constexpr unsigned CAP_CTLSWITCH = 128;  // change_control / control<> allowed
   constexpr unsigned CAP_TREEOPS = 512;    // extra tree-shape ops (compiled into the parse tree set only)
   constexpr unsigned CAP_PRIVSTATE = 256;  // rules that hand private states to sub-rules (raw_string) compile under this control

   // ---------------------------------------------------------------- events
   enum class Ev : std::uint8_t
   {
      ENTER,         // Control<Rule>::match entered
      EXIT,          // ... returned (flag R = result)
      EXC,           // ... left by exception (x = index into exception table)
      START,         // control hooks
      SUCCESS,
      FAILURE,
      UNWIND,
      RAISE,
      RAISE_NESTED,
      APPLY,         // control hook apply  (x = begin offset)
      APPLY0,        // control hook apply0
      A_APPLY,       // Action<Rule>::apply  (x = begin<<32|end, y = content hash, sid = state id, flag R = returned true / void)
      A_APPLY0,      // Action<Rule>::apply0
      X_APPLY,       // apply<>/apply0<>/if_apply<> helper action classes
      S_CTOR,        // state constructed (sid = id, x = outer id)
      S_SUCCESS,     // state.success (sid = id, x = outer id)
      S_DTOR,
      READ,          // reader call (x = requested<<32 | returned, y = offset in buffer)
      REQUIRE,       // buffer input: size/empty/end/require (x = amount)
      DISCARD,       // discard() (x = occupied before, y = 1 if data moved)
      SET_END,       // private_set_end (x = new end offset)
      FAULT,         // injected fault thrown here (x = site<<8|class, y = fault id)
      SOFT,          // soft bounds violation (x = what, y = value)
      TOP_BEGIN,     // before parse()
      TOP_END,       // after parse(): flag R = result; flags EXCF if exception (x = exc index)
      IOERR,         // a reader-level call of a stock stream input ended with an error and no data (x = errno)
      CA_START,      // hooks of an action derived from contrib control_action (rule = the rule the action is attached to)
      CA_SUCCESS,
      CA_FAILURE,
      CA_UNWIND,
      N_KINDS
   };

   inline const char* ev_name( Ev k )
   {
      static const char* n[] = { "ENTER", "EXIT", "EXC", "START", "SUCCESS", "FAILURE", "UNWIND", "RAISE", "RAISE_NESTED", "APPLY", "APPLY0", "A_APPLY", "A_APPLY0", "X_APPLY", "S_CTOR", "S_SUCCESS", "S_DTOR", "READ", "REQUIRE", "DISCARD", "SET_END", "FAULT", "SOFT", "TOP_BEGIN", "TOP_END", "IOERR", "CA_START", "CA_SUCCESS", "CA_FAILURE", "CA_UNWIND" };
      return n[ int( k ) ];
   }

   constexpr std::uint8_t F_ACTION = 1;    // A == apply_mode::action
   constexpr std::uint8_t F_REQUIRED = 2;  // M == rewind_mode::required
   constexpr std::uint8_t F_RESULT = 4;    // result / return value true
   constexpr std::uint8_t F_EXC = 8;       // TOP_END by exception
   constexpr std::uint8_t F_SUB = 16;      // event on a sub-input (rematch), not on the main input
   constexpr std::uint8_t F_NOPOS = 32;    // no cursor information on this event

   constexpr std::uint32_t NOPOS = 0xffffffffu;

   struct Event
   {
      Ev kind;
      std::uint8_t flags = 0;
      std::uint8_t afam = 0;  // action family in effect (1 = sim_action, 2 = act2)
      std::uint8_t cfam = 0;  // control family that produced the event (1 = sim_control, 2 = ctl2)
      std::uint32_t rule = 0;
      std::uint32_t pos = NOPOS;  // pointer-derived absolute offset of the cursor
      std::uint32_t byte = NOPOS, line = 0, col = 0;
      std::uint32_t endoff = NOPOS;  // offset of in.end() (memory inputs) / of the buffered end (buffer inputs)
      std::uint32_t depth = 0;       // current_depth() where available
      std::uint32_t sid = 0;         // id of the first state passed along (0 = none)
      std::uint32_t y = 0;
      std::uint64_t x = 0;
   };

   // ---------------------------------------------------------------- rules
   enum class RC : std::uint8_t
   {
      OTHER,
      NODE,
      KID,
      MINI,
      MKID,
      ATOM,       // sim::atoms dispatcher
      AT,
      NOT_AT,
      TC_RF_PE,   // try_catch_return_false (parse_error_base)
      TC_RF_ANY,
      TC_RF_STD,
      TC_RF_TYPE,  // sim_fault
      TC_RN_PE,
      TC_RN_ANY,
      TC_RN_STD,
      TC_RN_TYPE,
      MUST,
      RAISE,
      ENABLE,
      DISABLE,
      STATE,
      ACTION,     // action< act2, ... >
      CONTROL,    // control< ctl2, ... >
      W_CHANGE_STATE,
      W_CHANGE_STATES,
      W_CHANGE_ACTION,
      W_CHANGE_ACTION_STATE,
      W_CHANGE_ACTION_STATES,
      W_CHANGE_CONTROL,
      W_ENABLE_ACTION,
      W_DISABLE_ACTION,
      W_LIMIT_BYTES,
      W_LIMIT_DEPTH,
      W_CHECK_BYTES,
      W_DISCARD,  // rule carrying a discard_input* action
      IF_APPLY,
      INTEGER,    // contrib integer rules (may raise / throw overflow)
      TOP,        // top-level shape rules
      MI_RAISE,   // (must_if program) rule with a custom message that raises on any local failure
      MI_MSG,     // (must_if program) rule with a custom message that opted out of raising on failure
      W_CONTROL_ACTION,   // (hooks program) rule whose action derives from control_action; p0 = 0 with unwind(), 1 without
   };

   struct RuleInfo
   {
      std::string name;
      std::uint64_t namehash = 0;
      RC cls = RC::OTHER;
      bool enable = false;  // control hooks enabled for this rule under sim_control
      int p0 = -1, p1 = -1;  // first two integer template parameters (node index, N of limits, ...)
      int sel = -1;          // parse tree selector kind under sim_selector (-1 = not selected)
   };

   std::uint32_t register_rule( std::string_view name, bool enable, int sel );

   // ---------------------------------------------------------------- faults
   enum Site : std::uint8_t
   {
      SITE_ACTION,         // Action<Rule>::apply / apply0 / helper action classes
      SITE_SUCCESS_HOOK,   // Control<Rule>::success
      SITE_FAILURE_HOOK,   // Control<Rule>::failure
      SITE_STATE_CTOR,
      SITE_STATE_SUCCESS,
      SITE_READER,         // reader call throws (I/O error)
      SITE_ALLOC,          // k-th allocation made while library code runs
      SITE_SYSCALL,        // k-th open / fopen / fstat / mmap / fseek made by a file input fails with an errno
      N_SITES
   };

   enum ExcClass : std::uint8_t
   {
      EXC_NONE,
      EXC_FAULT,     // sim_fault: not derived from std::exception
      EXC_STD,       // sim_std_fault : std::runtime_error
      EXC_PE,        // tao::pegtl::parse_error thrown by user code
      EXC_INT,       // int
      EXC_IO,        // sim_io_error (reader)
      EXC_BAD_ALLOC,
      EXC_OVERFLOW,  // std::overflow_error (buffer_input)
      EXC_PE_LIB,    // tao::pegtl::parse_error raised by the library
      EXC_ABORT,     // sim_abort (fuel)
      EXC_OTHER_STD,
      EXC_UNKNOWN,
      EXC_SYSTEM,    // std::system_error / filesystem_error
   };

   struct FaultOp
   {
      std::uint8_t site = 0;
      std::uint8_t cls = EXC_FAULT;
      std::uint16_t k = 1;  // fires at the k-th occurrence of the site (1-based)
   };

   struct sim_fault
   {
      std::uint32_t id;
   };

   struct sim_std_fault : std::runtime_error
   {
      std::uint32_t id;
      explicit sim_std_fault( std::uint32_t i )
         : std::runtime_error( "sim_std_fault#" + std::to_string( i ) ),
           id( i )
      {}
   };

   struct sim_io_error
   {
      std::uint32_t id;
   };

   struct sim_abort
   {};

   struct ExcInfo
   {
      std::uint8_t cls = EXC_NONE;
      std::uint32_t id = 0;          // fault id where applicable
      std::string what;              // what() for std exceptions
      std::uint32_t byte = NOPOS, line = 0, col = 0;  // position_object() of parse errors
      std::string source;
      std::string message, position_string;
      bool has_nested = false;
      std::uint64_t nested_hash = 0;  // identity of the nested exception
      std::uint64_t hash = 0;         // identity of this exception (class, id, what, position)
   };

   // ---------------------------------------------------------------- grammar tables
   struct NodeRow
   {
      std::uint8_t op = 0;
      std::uint8_t kid[ 3 ] = { 0, 0, 0 };  // child node indices (main) or mini indices, per op
      std::uint8_t atom = 0;                // atom index for OP_ATOM rows
   };

   struct Grammar
   {
      NodeRow n[ NODES ];
      NodeRow m[ MINIS ];  // mini grammar; kid[] index minis; atom indexes the mini atom table
   };

   // ---------------------------------------------------------------- world
   struct World
   {
      // --- configuration of the current run (set by the runner before parse)
      Grammar g;
      std::vector< FaultOp > faults;
      std::vector< std::uint16_t > reads;  // planned read sizes, consumed in order
      std::uint64_t vetoseed = 0;
      const char* arena = nullptr;  // start of X inside the arena (memory inputs)
      std::size_t xlen = 0;
      const char* xdata = nullptr;  // the bytes of X (for readers)
      std::uint32_t short_by = 0;   // I/O jobs: the simulated stream ends this many bytes before the size it reports
      std::uint64_t fuel_events = 20000;
      std::uint32_t fuel_depth = 250;

      // --- per run state
      std::vector< Event > h;
      std::vector< ExcInfo > excs;
      std::uint32_t site_count[ N_SITES ] = {};
      std::uint32_t fault_fired = 0;  // number of faults thrown
      std::uint32_t next_state_id = 1;
      std::uint32_t cur_afam = 1;
      std::uint32_t open_depth = 0;  // open Control::match invocations
      std::uint32_t max_open_depth = 0;
      bool aborted = false;
      bool in_library = false;    // true while PEGTL code may allocate (ALLOC_FAIL window)
      bool io_active = false;     // true while a file / stream input of an I/O job is being built or parsed (syscall wrappers act)
      std::uint32_t asan_hits = 0;
      std::uint32_t last_end = NOPOS;  // cursor offset of the latest event with a cursor (for apply0 veto)
      std::uint32_t cur_atom = 0;      // atom selected by the innermost node / mini
      std::size_t mem_end_off = ~std::size_t( 0 );  // offset of the memory input's current end (lowered by limit_bytes)
      // reader state
      std::size_t delivered = 0;
      std::size_t read_idx = 0;
      std::uint32_t reads_after_eof = 0;
      std::uint32_t eof_polls = 0;  // consecutive reader calls at end of input without any other event

      std::uint64_t run_generation = 0;

      void reset_run()
      {
         ++run_generation;
         h.clear();
         excs.clear();
         std::memset( site_count, 0, sizeof( site_count ) );
         fault_fired = 0;
         next_state_id = 1;
         cur_afam = 1;
         open_depth = 0;
         max_open_depth = 0;
         aborted = false;
         in_library = false;
         io_active = false;
         asan_hits = 0;
         last_end = NOPOS;
         cur_atom = 0;
         mem_end_off = ~std::size_t( 0 );
         delivered = 0;
         read_idx = 0;
         reads_after_eof = 0;
         eof_polls = 0;
      }

      Event& push( Ev k )
      {
         h.emplace_back();
         h.back().kind = k;
         return h.back();
      }

      // returns the class to throw (EXC_NONE = no fault) for this occurrence of the site
      std::uint8_t fault_at( Site s, std::uint32_t& id )
      {
         const std::uint32_t c = ++site_count[ s ];
         for( std::size_t i = 0; i < faults.size(); ++i ) {
            if( faults[ i ].site == s && faults[ i ].k == c ) {
               id = static_cast< std::uint32_t >( i + 1 );
               return faults[ i ].cls;
            }
         }
         return EXC_NONE;
      }

      bool veto( std::uint64_t namehash, std::uint32_t b, std::uint32_t e ) const noexcept
      {
         return ( mix64( vetoseed ^ namehash, ( std::uint64_t( b ) << 32 ) | e ) % 5 ) == 0;
      }
   };

   extern World W;
   extern std::vector< RuleInfo > g_rules;

   // classify the exception currently being handled (call inside a catch block)
   std::uint32_t classify_current_exception();

   std::uint64_t history_hash( const std::vector< Event >& h, const std::vector< ExcInfo >& ex );
   std::string event_to_string( const Event& e, const std::vector< ExcInfo >& ex );

}  // namespace sim
