// Runtime-wired grammar: node<I> / kid<I,K> / mini<J> / atoms.
// A grammar is a table (sim::Grammar); every rule below is a real PEGTL rule whose
// match() dispatches on that table and forwards A, M, Action, Control and the states
// unchanged to a real public PEGTL combinator.
#pragma once

#include <tao/pegtl.hpp>
#include <tao/pegtl/contrib/check_bytes.hpp>
#include <tao/pegtl/contrib/abnf.hpp>
#include <tao/pegtl/contrib/http.hpp>
#include <tao/pegtl/contrib/if_then.hpp>
#include <tao/pegtl/contrib/integer.hpp>
#include <tao/pegtl/contrib/iri.hpp>
#include <tao/pegtl/contrib/json.hpp>
#include <tao/pegtl/contrib/json_pointer.hpp>
#include <tao/pegtl/contrib/predicates.hpp>
#include <tao/pegtl/contrib/rep_string.hpp>
#include <tao/pegtl/contrib/separated_seq.hpp>
#include <tao/pegtl/contrib/uri.hpp>
#include <tao/pegtl/contrib/limit_bytes.hpp>
#include <tao/pegtl/contrib/limit_depth.hpp>
#include <tao/pegtl/contrib/parse_tree.hpp>
#include <tao/pegtl/contrib/raw_string.hpp>
#include <tao/pegtl/contrib/rep_one_min_max.hpp>
#include <tao/pegtl/contrib/uint16.hpp>
#include <tao/pegtl/contrib/uint32.hpp>
#include <tao/pegtl/contrib/uint64.hpp>
#include <tao/pegtl/contrib/utf16.hpp>
#include <tao/pegtl/contrib/utf32.hpp>
#include <tao/pegtl/contrib/uint8.hpp>

#include "optable.hpp"
#include "sim.hpp"

namespace sim
{
   // ------------------------------------------------------------ capabilities of an instantiation set

   template< typename T, typename = void >
   inline constexpr bool has_set_end = false;
   template< typename T >
   inline constexpr bool has_set_end< T, std::void_t< decltype( std::declval< T& >().private_set_end( nullptr ) ) > > = true;

   template< typename T, typename = void >
   inline constexpr bool has_depth_guard = false;
   template< typename T >
   inline constexpr bool has_depth_guard< T, std::void_t< decltype( std::declval< T& >().make_depth_guard() ) > > = true;

   template< typename T, typename = void >
   inline constexpr bool has_column = false;
   template< typename T >
   inline constexpr bool has_column< T, std::void_t< decltype( std::declval< const T& >().column() ) > > = true;

   template< typename C, typename = void >
   inline constexpr bool is_plain_control = false;
   template< typename C >
   inline constexpr bool is_plain_control< C, std::enable_if_t< std::is_same_v< C, sim_control< pegtl::success > > || std::is_same_v< C, ctl2< pegtl::success > > > > = true;

#ifndef SIM_SET_REMATCH
#define SIM_SET_REMATCH 1
#endif
// state_control< ... >::control< Rule > expects its own state in every hook call, which raw_string's
// internal rules (called with the marker size as only state) cannot provide
#ifndef SIM_SET_PRIVSTATE
#define SIM_SET_PRIVSTATE 1
#endif
#ifndef SIM_SET_TREEOPS
#define SIM_SET_TREEOPS 0
#endif

   template< typename In, template< typename... > class Control, typename... St >
   constexpr unsigned set_caps()
   {
      unsigned c = 0;
      if( input_kind< In > != 2 ) {
         c |= CAP_MEMORY;
      }
      if( has_set_end< In > ) {
         c |= CAP_SETEND;
      }
      if( has_depth_guard< In > ) {
         c |= CAP_DEPTH;
      }
      if( has_column< In > ) {
         c |= CAP_COLUMN;
      }
      if( ( sizeof...( St ) == 1 ) && ( std::is_same_v< St, sim_state& > && ... ) ) {
         c |= CAP_STATE;
      }
      if( is_plain_control< Control< pegtl::success > > ) {
         c |= CAP_PLAINCTL | CAP_CTLSWITCH;
      }
      if( SIM_SET_REMATCH && input_kind< In > != 0 ) {
         c |= CAP_REMATCH;
      }
      if( SIM_SET_PRIVSTATE ) {
         c |= CAP_PRIVSTATE;
      }
      if( SIM_SET_TREEOPS ) {
         c |= CAP_TREEOPS;
      }
      return c;
   }

   // ------------------------------------------------------------ forward declarations
   template< int I >
   struct node;
   template< int I, int K >
   struct kid;
   template< int I, int K >
   struct mref;
   template< int J >
   struct mini;
   template< int J, int K >
   struct mkid;
   struct atoms;
   struct matoms;

   template< int I, int K >
   inline constexpr bool is_dispatch< kid< I, K > > = true;
   template< int I, int K >
   inline constexpr bool is_dispatch< mref< I, K > > = true;
   template< int J, int K >
   inline constexpr bool is_dispatch< mkid< J, K > > = true;
   template<>
   inline constexpr bool is_dispatch< atoms > = true;
   template<>
   inline constexpr bool is_dispatch< matoms > = true;

   // ------------------------------------------------------------ wrapper rules carrying a switching / limiting action
   // clang-format off
   template< int I > struct w_cs : pegtl::seq< kid< I, 0 > > {};    // change_state
   template< int I > struct w_css : pegtl::seq< kid< I, 0 > > {};   // change_states
   template< int I > struct w_ea : pegtl::seq< kid< I, 0 > > {};    // enable_action
   template< int I > struct w_da : pegtl::seq< kid< I, 0 > > {};    // disable_action
   template< int N, int I > struct w_lb : pegtl::seq< kid< I, 0 > > {};  // limit_bytes< N >
   template< int N, int I > struct w_ld : pegtl::seq< kid< I, 0 > > {};  // limit_depth< N >
   template< int N, int I > struct w_cb : pegtl::seq< kid< I, 0 > > {};  // check_bytes< N >
   template< int I > struct w_id : pegtl::seq< kid< I, 0 > > {};    // no action: what a limit wrapper is replaced by in the unguarded run
   template< int I > struct w_msg : pegtl::seq< kid< I, 0 > >       // rule with a custom error message (no action)
   {
      static constexpr const char* error_message = "custom message of w_msg";
   };
   template< int J > struct mw_ca : pegtl::seq< mkid< J, 0 > > {};   // change_action< act2 >
   template< int J > struct mw_cc : pegtl::seq< mkid< J, 0 > > {};   // change_control< ctl2 >
   template< int J > struct mw_cas : pegtl::seq< mkid< J, 0 > > {};  // change_action_and_state< act2, sim_state >
   template< int J > struct mw_cass : pegtl::seq< mkid< J, 0 > > {}; // change_action_and_states< act2, sim_state >
   template< int J > struct mw_cs : pegtl::seq< mkid< J, 0 > > {};   // change_state< sim_state >   (direct child of control< ctl2, ... >)
   template< int J > struct mw_da : pegtl::seq< mkid< J, 0 > > {};   // disable_action              (direct child of control< ctl2, ... >)

   template< int I > struct sim_action< w_cs< I > > : pegtl::change_state< sim_state > { static constexpr int family = 1; };
   template< int I > struct sim_action< w_css< I > > : pegtl::change_states< sim_state >
   {
      static constexpr int family = 1;
      template< typename In, typename... Outer >
      static void success( const In& in, sim_state& s, Outer&&... outer )
      {
         s.success( in, outer... );
      }
   };
   template< int I > struct sim_action< w_ea< I > > : pegtl::enable_action { static constexpr int family = 1; };
   template< int I > struct sim_action< w_da< I > > : pegtl::disable_action { static constexpr int family = 1; };
   template< int N, int I > struct sim_action< w_lb< N, I > > : pegtl::limit_bytes< N > { static constexpr int family = 1; };
   template< int N, int I > struct sim_action< w_ld< N, I > > : pegtl::limit_depth< N > { static constexpr int family = 1; };
   template< int N, int I > struct sim_action< w_cb< N, I > > : pegtl::check_bytes< N > { static constexpr int family = 1; };
   template< int J > struct sim_action< mw_ca< J > > : pegtl::change_action< act2 > { static constexpr int family = 1; };
   template< int J > struct sim_action< mw_cc< J > > : pegtl::change_control< ctl2 > { static constexpr int family = 1; };
   template< int J > struct sim_action< mw_cs< J > > : pegtl::change_state< sim_state > { static constexpr int family = 1; };
   template< int J > struct sim_action< mw_da< J > > : pegtl::disable_action { static constexpr int family = 1; };
   template< int J > struct sim_action< mw_cas< J > > : pegtl::change_action_and_state< act2, sim_state > { static constexpr int family = 1; };
   template< int J > struct sim_action< mw_cass< J > > : pegtl::change_action_and_states< act2, sim_state >
   {
      static constexpr int family = 1;
      template< typename In, typename... Outer >
      static void success( const In& in, sim_state& s, Outer&&... outer )
      {
         s.success( in, outer... );
      }
   };
   // double switch on the same rule: the action that change_action_and_state(s) switches TO carries a switch of
   // its own for that rule (consulted only if the first switch re-dispatches through Control< Rule >::match)
   template< int J > struct act2< mw_cas< J > > : pegtl::enable_action { static constexpr int family = 2; };
   template< int J > struct act2< mw_cass< J > > : pegtl::disable_action { static constexpr int family = 2; };
   // clang-format on

   // ------------------------------------------------------------ static rules used as atoms
   struct rtag  // the type named by raise< rtag >; a rule, so that controls layered on rules (parse tree) accept it
      : pegtl::failure
   {};
   // clang-format off
   struct named_ab : pegtl::string< 'a', 'b' > {};
   struct named_digits : pegtl::plus< pegtl::digit > {};
   struct named_c : pegtl::one< 'c' > {};
   struct named_ws : pegtl::star< pegtl::space > {};
   struct list_digits : pegtl::list< named_digits, pegtl::one< ',' >, pegtl::blank > {};
   // nesting depth 7 / 9 below a named rule, with a selected named rule at the bottom
   // (exercises the parse tree's compile-time leaf optimisation, is_leaf< 8, ... >)
   struct deep_leaf : pegtl::one< 'a' > {};
   struct deep7 : pegtl::opt< pegtl::seq< pegtl::at< pegtl::any >, pegtl::sor< pegtl::seq< pegtl::opt< pegtl::one< 'b' > >, pegtl::plus< pegtl::sor< deep_leaf, pegtl::one< 'b' > > > >, pegtl::one< 'c' > > > > {};
   struct deep9 : pegtl::opt< pegtl::seq< pegtl::at< pegtl::any >, pegtl::sor< pegtl::seq< pegtl::opt< pegtl::one< 'b' > >, pegtl::plus< pegtl::sor< pegtl::seq< pegtl::opt< pegtl::one< 'c' > >, pegtl::sor< deep_leaf, pegtl::one< 'b' > > >, pegtl::one< '0' > > > >, pegtl::one< 'c' > > > > {};
   // a selected rule 10 levels below an unselected sor<> whose first alternative fails AFTER that rule matched:
   // only correct leaf classification beyond depth 8 keeps the backtracked node out of the tree
   struct deep10_bt : pegtl::sor< pegtl::seq< pegtl::opt< pegtl::seq< pegtl::at< pegtl::not_range< '!', '!' > >, pegtl::sor< pegtl::seq< pegtl::opt< pegtl::range< 'b', 'b' > >, pegtl::plus< pegtl::sor< pegtl::seq< pegtl::opt< pegtl::range< 'c', 'c' > >, pegtl::sor< deep_leaf, pegtl::range< 'b', 'b' > > >, pegtl::range< '0', '0' > > > >, pegtl::range< 'c', 'c' > > > >, pegtl::range< '!', '!' > >, pegtl::success > {};
   // clang-format on

   // action attachment: node<I> by I mod 5, mini<J> by (J+1) mod 5 in family 1 and (J+2) mod 5 in family 2
   template< int I >
   inline constexpr int action_kind_1< node< I > > = I % 5;
   template< int J >
   inline constexpr int action_kind_1< mini< J > > = ( J + 1 ) % 5;
   template< int J >
   inline constexpr int action_kind_2< mini< J > > = ( J + 2 ) % 5;
   template<>
   inline constexpr int action_kind_1< named_ab > = 1;
   template<>
   inline constexpr int action_kind_1< named_digits > = 2;
   template<>
   inline constexpr int action_kind_1< named_c > = 4;
   template<>
   inline constexpr int action_kind_1< deep_leaf > = 3;
   template<>
   inline constexpr int action_kind_1< pegtl::string< 'a', 'b', 'c' > > = 1;
   template<>
   inline constexpr int action_kind_2< pegtl::string< 'a', 'b' > > = 1;
   template<>
   inline constexpr int action_kind_2< pegtl::one< 'a' > > = 2;

   // ------------------------------------------------------------ parse tree selector (used by the tree set)
   // by rule: node<I>: I%5 -> 0 store_content, 1 unselected, 2 remove_content, 3 fold_one, 4 discard_empty
   // clang-format off
   template< int I > struct sel_kind { using type = std::false_type; };
   template< typename Rule, int K > struct sel_pick : std::false_type {};  // K = 1: unselected
   template< typename Rule > struct sel_pick< Rule, 0 > : pegtl::parse_tree::store_content::on< Rule >::type {};
   template< typename Rule > struct sel_pick< Rule, 2 > : pegtl::parse_tree::remove_content::on< Rule >::type {};
   template< typename Rule > struct sel_pick< Rule, 3 > : pegtl::parse_tree::fold_one::on< Rule >::type {};
   template< typename Rule > struct sel_pick< Rule, 4 > : pegtl::parse_tree::discard_empty::on< Rule >::type {};
   template< int I > struct sim_selector< node< I > > : sel_pick< node< I >, I % 5 > {};
   template< int J > struct sim_selector< mini< J > > : sel_pick< mini< J >, ( J * 2 ) % 5 > {};
   template<> struct sim_selector< deep_leaf > : sel_pick< deep_leaf, 0 > {};
   template<> struct sim_selector< named_ab > : sel_pick< named_ab, 0 > {};
   template<> struct sim_selector< named_digits > : sel_pick< named_digits, 3 > {};
   template<> struct sim_selector< named_c > : sel_pick< named_c, 2 > {};
   template<> struct sim_selector< list_digits > : sel_pick< list_digits, 4 > {};
   template< int I > struct sim_selector< pegtl::seq< kid< I, 0 >, kid< I, 1 > > > : sel_pick< pegtl::seq< kid< I, 0 >, kid< I, 1 > >, 0 > {};
   template< int I > struct sim_selector< pegtl::sor< kid< I, 0 >, kid< I, 1 > > > : sel_pick< pegtl::sor< kid< I, 0 >, kid< I, 1 > >, 3 > {};
   template< int I > struct sim_selector< pegtl::star< kid< I, 0 > > > : sel_pick< pegtl::star< kid< I, 0 > >, 4 > {};
   template< int I > struct sim_selector< pegtl::opt< kid< I, 0 > > > : sel_pick< pegtl::opt< kid< I, 0 > >, 2 > {};
   template< int I > struct sim_selector< pegtl::plus< kid< I, 0 > > > : sel_pick< pegtl::plus< kid< I, 0 > >, 0 > {};
   template< int I > struct sim_selector< pegtl::at< kid< I, 0 > > > : sel_pick< pegtl::at< kid< I, 0 > >, 0 > {};
   template< char... Cs > struct sim_selector< pegtl::one< Cs... > > : sel_pick< pegtl::one< Cs... >, 0 > {};
   template< char... Cs > struct sim_selector< pegtl::string< Cs... > > : sel_pick< pegtl::string< Cs... >, 0 > {};
   template<> struct sim_selector< pegtl::any > : sel_pick< pegtl::any, 0 > {};
   template<> struct sim_selector< pegtl::digit > : sel_pick< pegtl::digit, 0 > {};
   // clang-format on

   // ------------------------------------------------------------ the dispatchers
   using node_list = pegtl::type_list< node< 0 >, node< 1 >, node< 2 >, node< 3 >, node< 4 >, node< 5 >, node< 6 >, node< 7 > >;
   using mini_list = pegtl::type_list< mini< 0 >, mini< 1 >, mini< 2 > >;
   static_assert( NODES == 8 && MINIS == 3, "update the dispatch switches" );

#define SIM_MATCH_SIG                                                                                                   \
   template< pegtl::apply_mode A, pegtl::rewind_mode M, template< typename... > class Action, template< typename... > class Control, typename In, typename... St > \
   [[nodiscard]] static bool match( In& in, St&&... st )

#define SIM_FWD( ... ) Control< __VA_ARGS__ >::template match< A, M, Action, Control >( in, st... )

   template< int I, int K >
   struct kid
   {
      using rule_t = kid;
      using subs_t = node_list;
      SIM_MATCH_SIG
      {
         switch( W.g.n[ I ].kid[ K ] % NODES ) {
            case 0: return SIM_FWD( node< 0 > );
            case 1: return SIM_FWD( node< 1 > );
            case 2: return SIM_FWD( node< 2 > );
            case 3: return SIM_FWD( node< 3 > );
            case 4: return SIM_FWD( node< 4 > );
            case 5: return SIM_FWD( node< 5 > );
            case 6: return SIM_FWD( node< 6 > );
            default: return SIM_FWD( node< 7 > );
         }
      }
   };

   template< int I, int K >
   struct mref
   {
      using rule_t = mref;
      using subs_t = mini_list;
      SIM_MATCH_SIG
      {
         switch( W.g.n[ I ].kid[ K ] % MINIS ) {
            case 0: return SIM_FWD( mini< 0 > );
            case 1: return SIM_FWD( mini< 1 > );
            default: return SIM_FWD( mini< 2 > );
         }
      }
   };

   template< int J, int K >
   struct mkid
   {
      using rule_t = mkid;
      using subs_t = mini_list;
      SIM_MATCH_SIG
      {
         switch( W.g.m[ J ].kid[ K ] % MINIS ) {
            case 0: return SIM_FWD( mini< 0 > );
            case 1: return SIM_FWD( mini< 1 > );
            default: return SIM_FWD( mini< 2 > );
         }
      }
   };

   // ---- atoms
   struct atoms
   {
      using rule_t = atoms;
      using subs_t = pegtl::type_list<
#define ATOM( NAME, CAPS, NULLABLE, ... ) __VA_ARGS__,
#include "atoms.def"
#undef ATOM
         pegtl::failure >;

      template< pegtl::apply_mode A, pegtl::rewind_mode M, template< typename... > class Action, template< typename... > class Control, typename In, typename... St >
      [[nodiscard]] static bool match( In& in, St&&... st );
   };

   template< pegtl::apply_mode A, pegtl::rewind_mode M, template< typename... > class Action, template< typename... > class Control, typename In, typename... St >
   bool atoms::match( In& in, St&&... st )
   {
      constexpr unsigned caps = set_caps< In, Control, St... >();
      switch( W.cur_atom ) {
#define ATOM( NAME, CAPS, NULLABLE, ... )               \
   case ATOM_##NAME:                                    \
      if constexpr( ( ( CAPS ) & ~caps ) == 0 ) {       \
         return SIM_FWD( __VA_ARGS__ );                 \
      }                                                 \
      else {                                            \
         return false;                                  \
      }
#include "atoms.def"
#undef ATOM
         default:
            return false;
      }
   }

   // ---- mini atoms (small, instantiated for every action / control family)
   struct matoms
   {
      using rule_t = matoms;
      using subs_t = pegtl::type_list< pegtl::one< 'a' >, pegtl::one< 'b' >, pegtl::any, pegtl::string< 'a', 'b' >, pegtl::digit, pegtl::eof, pegtl::success, pegtl::failure >;
      SIM_MATCH_SIG
      {
         switch( W.cur_atom ) {
            case MATOM_ONE_A: return SIM_FWD( pegtl::one< 'a' > );
            case MATOM_ONE_B: return SIM_FWD( pegtl::one< 'b' > );
            case MATOM_ANY: return SIM_FWD( pegtl::any );
            case MATOM_STR_AB: return SIM_FWD( pegtl::string< 'a', 'b' > );
            case MATOM_DIGIT: return SIM_FWD( pegtl::digit );
            case MATOM_EOF: return SIM_FWD( pegtl::eof );
            case MATOM_SUCCESS: return SIM_FWD( pegtl::success );
            default: return SIM_FWD( pegtl::failure );
         }
      }
   };

   // ---- mini grammar ops
   template< int J >
   struct mini
   {
      using rule_t = mini;
      using MK0 = mkid< J, 0 >;
      using MK1 = mkid< J, 1 >;
      using subs_t = pegtl::type_list< matoms, MK0, pegtl::seq< MK0, MK1 >, pegtl::sor< MK0, MK1 >, pegtl::star< MK0 >, pegtl::opt< MK0 >, pegtl::at< MK0 >, pegtl::not_at< MK0 >, pegtl::must< MK0 >, pegtl::try_catch_any_return_false< MK0 >, mw_ca< J >, mw_cc< J >, pegtl::action< act2, MK0 >, pegtl::control< ctl2, MK0 >, mw_cas< J >, mw_cass< J >, pegtl::disable< MK0 >, pegtl::enable< MK0 >, pegtl::state< sim_state, MK0 >, pegtl::control< ctl2, mw_cs< J > >, pegtl::control< ctl2, mw_da< J > >, pegtl::action< act2, mw_cas< J > >, pegtl::action< act2, mw_cass< J > >, pegtl::disable< mw_ca< J > >, pegtl::state< sim_state, mw_cc< J > > >;

      template< pegtl::apply_mode A, pegtl::rewind_mode M, template< typename... > class Action, template< typename... > class Control, typename In, typename... St >
      [[nodiscard]] static bool match( In& in, St&&... st );
   };

   template< int J >
   template< pegtl::apply_mode A, pegtl::rewind_mode M, template< typename... > class Action, template< typename... > class Control, typename In, typename... St >
   bool mini< J >::match( In& in, St&&... st )
   {
      constexpr unsigned caps = set_caps< In, Control, St... >();
      constexpr bool fam1 = ( Action< void >::family == 1 );
      constexpr bool ctl1 = ( Control< pegtl::success >::control_family == 1 );
      constexpr bool state_ok = ( caps & CAP_STATE ) != 0;
      // families are limited to ( act 1, ctl 1 ), ( act 2, ctl 1 ), ( act 1, ctl 2 ): a switch that would
      // leave that set degrades to a plain pass-through, identically in every configuration.
      switch( W.g.m[ J ].op ) {
         case MOP_ATOM:
            W.cur_atom = W.g.m[ J ].atom;
            return SIM_FWD( matoms );
         case MOP_SEQ2: return Control< pegtl::seq< MK0, MK1 > >::template match< A, M, Action, Control >( in, st... );
         case MOP_SOR2: return Control< pegtl::sor< MK0, MK1 > >::template match< A, M, Action, Control >( in, st... );
         case MOP_STAR: return SIM_FWD( pegtl::star< MK0 > );
         case MOP_OPT: return SIM_FWD( pegtl::opt< MK0 > );
         case MOP_AT: return SIM_FWD( pegtl::at< MK0 > );
         case MOP_NOT_AT: return SIM_FWD( pegtl::not_at< MK0 > );
         case MOP_MUST: return SIM_FWD( pegtl::must< MK0 > );
         case MOP_TC_ANY_RF: return SIM_FWD( pegtl::try_catch_any_return_false< MK0 > );
         case MOP_CA:
            if constexpr( fam1 && ctl1 ) {
               return SIM_FWD( mw_ca< J > );
            }
            else {
               return SIM_FWD( MK0 );
            }
         case MOP_CC:
            if constexpr( fam1 && ctl1 && ( ( caps & CAP_CTLSWITCH ) != 0 ) ) {
               return SIM_FWD( mw_cc< J > );
            }
            else {
               return SIM_FWD( MK0 );
            }
         case MOP_ACTION:
            if constexpr( fam1 && ctl1 ) {
               return Control< pegtl::action< act2, MK0 > >::template match< A, M, Action, Control >( in, st... );
            }
            else {
               return SIM_FWD( MK0 );
            }
         case MOP_CONTROL:
            if constexpr( fam1 && ctl1 && ( ( caps & CAP_CTLSWITCH ) != 0 ) ) {
               return Control< pegtl::control< ctl2, MK0 > >::template match< A, M, Action, Control >( in, st... );
            }
            else {
               return SIM_FWD( MK0 );
            }
         case MOP_CAS:
            if constexpr( fam1 && ctl1 && state_ok ) {
               return SIM_FWD( mw_cas< J > );
            }
            else {
               return SIM_FWD( MK0 );
            }
         case MOP_CASS:
            if constexpr( fam1 && ctl1 && state_ok ) {
               return SIM_FWD( mw_cass< J > );
            }
            else {
               return SIM_FWD( MK0 );
            }
         case MOP_DISABLE: return SIM_FWD( pegtl::disable< MK0 > );
         case MOP_ENABLE: return SIM_FWD( pegtl::enable< MK0 > );
         case MOP_STATE:
            if constexpr( state_ok ) {
               return Control< pegtl::state< sim_state, MK0 > >::template match< A, M, Action, Control >( in, st... );
            }
            else {
               return SIM_FWD( MK0 );
            }
         case MOP_CONTROL_CS:
            if constexpr( fam1 && ctl1 && state_ok && ( ( caps & CAP_CTLSWITCH ) != 0 ) ) {
               return Control< pegtl::control< ctl2, mw_cs< J > > >::template match< A, M, Action, Control >( in, st... );
            }
            else {
               return SIM_FWD( MK0 );
            }
         case MOP_CONTROL_DA:
            if constexpr( fam1 && ctl1 && ( ( caps & CAP_CTLSWITCH ) != 0 ) ) {
               return Control< pegtl::control< ctl2, mw_da< J > > >::template match< A, M, Action, Control >( in, st... );
            }
            else {
               return SIM_FWD( MK0 );
            }
         case MOP_ACTION_CAS:
            if constexpr( fam1 && ctl1 ) {
               return Control< pegtl::action< act2, mw_cas< J > > >::template match< A, M, Action, Control >( in, st... );
            }
            else {
               return SIM_FWD( MK0 );
            }
         case MOP_ACTION_CASS:
            if constexpr( fam1 && ctl1 ) {
               return Control< pegtl::action< act2, mw_cass< J > > >::template match< A, M, Action, Control >( in, st... );
            }
            else {
               return SIM_FWD( MK0 );
            }
         case MOP_DISABLE_CA:
            if constexpr( fam1 && ctl1 ) {
               return Control< pegtl::disable< mw_ca< J > > >::template match< A, M, Action, Control >( in, st... );
            }
            else {
               return SIM_FWD( pegtl::disable< MK0 > );
            }
         case MOP_STATE_CC:
            if constexpr( fam1 && ctl1 && state_ok && ( ( caps & CAP_CTLSWITCH ) != 0 ) ) {
               return Control< pegtl::state< sim_state, mw_cc< J > > >::template match< A, M, Action, Control >( in, st... );
            }
            else {
               return SIM_FWD( MK0 );
            }
         default:
            return false;
      }
   }

   // ---- main grammar ops
   template< int I >
   struct node
   {
      using rule_t = node;
      using K0 = kid< I, 0 >;
      using K1 = kid< I, 1 >;
      using K2 = kid< I, 2 >;
      using R1 = mref< I, 1 >;
      using R2 = mref< I, 2 >;
      using subs_t = pegtl::type_list<
#define OP( NAME, ARITY, CAPS, ... ) __VA_ARGS__,
#include "ops.def"
#undef OP
         pegtl::failure >;

      template< pegtl::apply_mode A, pegtl::rewind_mode M, template< typename... > class Action, template< typename... > class Control, typename In, typename... St >
      [[nodiscard]] static bool match( In& in, St&&... st );
   };

   template< int I >
   template< pegtl::apply_mode A, pegtl::rewind_mode M, template< typename... > class Action, template< typename... > class Control, typename In, typename... St >
   bool node< I >::match( In& in, St&&... st )
   {
      constexpr unsigned caps = set_caps< In, Control, St... >();
      switch( W.g.n[ I ].op ) {
#define OP( NAME, ARITY, CAPS, ... )                                                         \
   case OP_##NAME:                                                                           \
      if constexpr( OP_##NAME == OP_ATOM ) {                                                 \
         W.cur_atom = W.g.n[ I ].atom;                                                       \
      }                                                                                      \
      if constexpr( ( ( CAPS ) & ~caps ) == 0 ) {                                            \
         return Control< __VA_ARGS__ >::template match< A, M, Action, Control >( in, st... ); \
      }                                                                                      \
      else {                                                                                 \
         return false;                                                                       \
      }
#include "ops.def"
#undef OP
         default:
            return false;
      }
   }

   // ------------------------------------------------------------ top-level shapes
   // clang-format off
   struct top0 : node< 0 > {};
   struct top1 : pegtl::seq< node< 0 >, pegtl::eof > {};
   struct top2 : pegtl::star< node< 0 >, pegtl::discard > {};
   struct top3 : pegtl::until< pegtl::eof, node< 0 >, pegtl::discard > {};
   struct top4 : pegtl::seq< node< 0 >, pegtl::discard, node< 1 >, pegtl::discard, node< 2 > > {};
   struct di_any : node< 0 > {};
   struct di_ok : node< 0 > {};
   struct di_fail : node< 0 > {};
   template<> struct sim_action< di_any > : pegtl::discard_input { static constexpr int family = 1; };
   template<> struct sim_action< di_ok > : pegtl::discard_input_on_success { static constexpr int family = 1; };
   template<> struct sim_action< di_fail > : pegtl::discard_input_on_failure { static constexpr int family = 1; };
   struct top5 : pegtl::seq< pegtl::star< di_any >, pegtl::star< di_ok >, pegtl::opt< di_fail > > {};
   // clang-format on
   constexpr int N_SHAPES = 6;

}  // namespace sim
