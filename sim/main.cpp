// pegsim: worker / replay / shrink / show front end of the simulator.
#include <algorithm>
#include <chrono>
#include <cinttypes>
#include <csignal>
#include <cstdio>
#include <cstdlib>
#include <cstring>
#include <fstream>
#include <map>
#include <set>
#include <sstream>
#include <string>
#include <vector>

#include <fcntl.h>
#include <sys/mman.h>
#include <sys/resource.h>
#include <sys/wait.h>
#include <unistd.h>

#include "judge.hpp"
#include "optable.hpp"
#ifdef HAVE_IO
#include "io.hpp"
#endif

// AddressSanitizer stays in its default (fatal) mode: in recover mode it reports each code location only
// once per process and dies after 25 locations, which would make in-process search blind to repeats.
// A poisoned access therefore ends the worker; the driver reads the index from the status file,
// restarts the worker behind it and confirms the index in a fresh process.
extern "C" __attribute__( ( used, visibility( "default" ) ) ) const char* __asan_default_options()
{
   return "detect_leaks=0:exitcode=77:print_summary=0:detect_stack_use_after_return=0:max_malloc_fill_size=0:abort_on_error=0:malloc_context_size=2";  // deep allocation stacks of ever new grammars made the stack depot grow without bound
}

namespace
{
   volatile std::uint64_t* g_status = nullptr;  // [0] = index being run, [1] = 1 finished / 2 sanitizer report
}
void sim_emit_partial();

extern "C" void sim_on_abort( int )
{
   // failed assert() / std::terminate: a crash, not a sanitizer report
   if( g_status ) {
      g_status[ 1 ] = 3;
   }
   sim_emit_partial();
   std::signal( SIGABRT, SIG_DFL );
   std::raise( SIGABRT );
}

void sim_emit_partial();
extern "C" void sim_on_abort( int );

extern "C" __attribute__( ( used, visibility( "default" ) ) ) void __asan_on_error()
{
   ++sim::W.asan_hits;
   if( g_status ) {
      g_status[ 1 ] = 2;
   }
   sim_emit_partial();
}

namespace
{
   using namespace sim;

   std::string read_file( const std::string& path )
   {
      std::ifstream in( path, std::ios::binary );
      std::ostringstream o;
      o << in.rdbuf();
      return o.str();
   }

   std::string json_escape( const std::string& s )
   {
      std::string o;
      for( unsigned char c : s ) {
         if( c == '"' || c == '\\' ) {
            o += '\\';
            o += static_cast< char >( c );
         }
         else if( c < 32 || c >= 127 ) {
            char b[ 8 ];
            std::snprintf( b, sizeof( b ), "\\u%04x", c );
            o += b;
         }
         else {
            o += static_cast< char >( c );
         }
      }
      return o;
   }

   struct Args
   {
      std::map< std::string, std::string > kv;
      std::vector< std::string > pos;

      std::string get( const std::string& k, const std::string& d = "" ) const
      {
         auto it = kv.find( k );
         return it == kv.end() ? d : it->second;
      }
      std::uint64_t num( const std::string& k, std::uint64_t d ) const
      {
         auto it = kv.find( k );
         return it == kv.end() ? d : std::strtoull( it->second.c_str(), nullptr, 10 );
      }
   };

   Args parse_args( int argc, char** argv, int from )
   {
      Args a;
      for( int i = from; i < argc; ++i ) {
         std::string s = argv[ i ];
         if( s.rfind( "--", 0 ) == 0 ) {
            if( i + 1 < argc && std::strncmp( argv[ i + 1 ], "--", 2 ) != 0 ) {
               a.kv[ s.substr( 2 ) ] = argv[ i + 1 ];
               ++i;
            }
            else {
               a.kv[ s.substr( 2 ) ] = "1";
            }
         }
         else {
            a.pos.push_back( s );
         }
      }
      return a;
   }

   void add_features( std::map< std::string, std::uint64_t >& m, const Features& f )
   {
      m[ "invocations" ] += f.invocations;
      m[ "faults_fired" ] += f.faults;
      m[ "exceptions_converted_to_failure" ] += f.caught_rf;
      m[ "exceptions_nested" ] += f.nested;
      m[ "exceptions_reached_caller" ] += f.reached_caller;
      m[ "natural_raises" ] += f.natural_raise;
      m[ "required_failures_after_consuming" ] += f.local_fail_consumed;
      m[ "lookaheads_that_consumed" ] += f.lookahead;
      m[ "action_vetoes" ] += f.vetoes;
      m[ "unwinds" ] += f.unwinds;
      m[ "state_scopes" ] += f.state_scopes;
      m[ "state_scopes_left_by_failure_or_exception" ] += f.state_scopes_failed;
      m[ "family_switches" ] += f.switches;
      m[ "byte_limit_scopes" ] += f.byte_limits;
      m[ "byte_limit_scopes_at_nonzero_offset" ] += f.byte_limits_offset;
      m[ "depth_limit_scopes" ] += f.depth_limits;
      m[ "depth_limit_raises" ] += f.depth_raise;
      m[ "events_on_sub_inputs" ] += f.sub_inputs;
      m[ "reader_calls" ] += f.reads;
      m[ "short_reads" ] += f.short_reads;
      m[ "discards_moved_data" ] += f.discards_moved;
      m[ "discards_noop" ] += f.discards_noop;
      m[ "refills_inside_rule" ] += f.refill_in_rule;
      m[ "requests_larger_than_3" ] += f.big_require;
      m[ "overflow_errors" ] += f.overflow;
   m[ "allocation_failures_fired" ] += f.alloc_faults;
   }

   // aggregates of the current worker; global so that they can be written out when the process is about to die
   struct RunAgg
   {
      std::FILE* res = nullptr;
      std::map< std::string, std::uint64_t > feat;
      std::map< std::string, std::uint64_t > foreign;
      std::set< std::uint32_t > fault_ctx;
      std::uint64_t runs = 0, discarded = 0, nontrivial = 0, violations = 0, with_faults = 0, fault_free = 0;
      std::uint64_t events = 0, reader_calls = 0, bytes = 0;
      std::vector< std::string > samples;
      std::chrono::steady_clock::time_point t0;
      bool emitted = false;

      void emit( const char* tag )
      {
         if( res == nullptr || emitted ) {
            return;
         }
         emitted = true;
         const double wall = std::chrono::duration< double >( std::chrono::steady_clock::now() - t0 ).count();
         std::fprintf( res, "%s {\"runs\":%" PRIu64 ",\"discarded\":%" PRIu64 ",\"nontrivial\":%" PRIu64 ",\"violating_runs\":%" PRIu64 ",\"with_faults\":%" PRIu64 ",\"fault_free\":%" PRIu64 ",\"events\":%" PRIu64 ",\"reader_calls_total\":%" PRIu64 ",\"bytes_delivered\":%" PRIu64 ",\"wall_s\":%.3f",
                       tag, runs, discarded, nontrivial, violations, with_faults, fault_free, events, reader_calls, bytes, wall );
         std::fprintf( res, ",\"features\":{" );
         bool first = true;
         for( const auto& [ k, val ] : feat ) {
            std::fprintf( res, "%s\"%s\":%" PRIu64, first ? "" : ",", k.c_str(), val );
            first = false;
         }
         std::fprintf( res, "},\"foreign\":{" );
         first = true;
         for( const auto& [ k, val ] : foreign ) {
            std::fprintf( res, "%s\"%s\":%" PRIu64, first ? "" : ",", k.c_str(), val );
            first = false;
         }
         std::fprintf( res, "},\"fault_contexts\":[" );
         first = true;
         for( auto c : fault_ctx ) {
            std::fprintf( res, "%s%u", first ? "" : ",", c );
            first = false;
         }
         std::fprintf( res, "],\"samples\":[" );
         first = true;
         for( const auto& s : samples ) {
            std::fprintf( res, "%s\"%s\"", first ? "" : ",", json_escape( s ).c_str() );
            first = false;
         }
         std::fprintf( res, "]}\n" );
         std::fflush( res );
      }
   };
   RunAgg g_agg;
   std::FILE* g_fp = nullptr;

   int cmd_run( const Args& a )
   {
      const std::string check = a.get( "check" );
      const std::uint64_t seed = a.num( "seed", 1 );
      const std::uint64_t begin = a.num( "begin", 0 ), end = a.num( "end", 1000 );
      const std::uint64_t stride = a.num( "stride", 1 ), offset = a.num( "offset", 0 );
      const bool thorough = a.get( "tier", "quick" ) == "thorough";
      const std::string out = a.get( "out", "/tmp/pegsim" );
      const bool want_hashes = a.num( "hashes", 0 ) != 0;
      const std::uint64_t max_viol = a.num( "max-violations", 8 );
      const int only_set = static_cast< int >( a.num( "only-set", 0 ) );

      // crash containment: the index being run is always visible in <out>.status
      const std::string status_path = out + ".status";
      int sfd = ::open( status_path.c_str(), O_RDWR | O_CREAT | O_TRUNC, 0644 );
      volatile std::uint64_t* status = nullptr;
      if( sfd >= 0 && ::ftruncate( sfd, 24 ) == 0 ) {
         void* p = ::mmap( nullptr, 24, PROT_READ | PROT_WRITE, MAP_SHARED, sfd, 0 );
         if( p != MAP_FAILED ) {
            status = static_cast< volatile std::uint64_t* >( p );
            status[ 0 ] = ~0ULL;
            status[ 1 ] = 0;
            status[ 2 ] = 0;  // heartbeat: the worker is walking its index range (also while it only skips other binaries' jobs)
            g_status = status;
         }
      }
      RunAgg& g = g_agg;
      g.res = std::fopen( ( out + ".res" ).c_str(), "w" );
      g_fp = std::fopen( ( out + ".fp" ).c_str(), "wb" );
      std::FILE* hs = want_hashes ? std::fopen( ( out + ".hashes" ).c_str(), "w" ) : nullptr;
      if( g.res == nullptr || g_fp == nullptr ) {
         std::fprintf( stderr, "cannot open output files under %s\n", out.c_str() );
         return 3;
      }
      std::fprintf( g.res, "SEED %" PRIu64 " check=%s begin=%" PRIu64 " end=%" PRIu64 " stride=%" PRIu64 " offset=%" PRIu64 "\n", seed, check.c_str(), begin, end, stride, offset );
      std::fflush( g.res );
      g.t0 = std::chrono::steady_clock::now();

      for( std::uint64_t i = begin; i < end; ++i ) {
         if( i % stride != offset ) {
            continue;
         }
         if( status && ( ( i / stride ) & 1023 ) == 0 ) {
            status[ 2 ] = status[ 2 ] + 1;
         }
         const Job j = make_job( check, seed, i, thorough );
         if( !job_runnable( j ) || ( only_set != 0 && int( j.set ) != only_set ) ) {
            continue;  // another binary runs this index
         }
         if( status ) {
            status[ 0 ] = i;
         }
         const Verdict v = judge( j );
         ++g.runs;
         ( j.with_faults ? g.with_faults : g.fault_free ) += 1;
         g.events += v.events;
         g.reader_calls += v.reader_calls;
         g.bytes += v.bytes_delivered;
         if( hs ) {
            std::fprintf( hs, "%" PRIu64 " %016" PRIx64 "\n", i, v.fingerprint );
         }
         if( v.discarded ) {
            ++g.discarded;
            continue;
         }
         add_features( g.feat, v.f );
         if( v.f.fault_ctx ) {
            g.fault_ctx.insert( v.f.fault_ctx );
         }
         if( v.f.nontrivial ) {
            ++g.nontrivial;
            std::fwrite( &v.fingerprint, sizeof( v.fingerprint ), 1, g_fp );
            if( g.samples.size() < 3 && ( g.samples.empty() || i % 7 == 0 ) ) {
               g.samples.push_back( describe_case( j.c ) );
            }
         }
         for( const auto& x : v.foreign ) {
            if( g.foreign[ x.oracle ] < 3 ) {
               std::fprintf( g.res, "FOREIGN %llu %s %s %s\n", static_cast< unsigned long long >( i ), x.oracle.c_str(), x.key.c_str(), x.detail.c_str() );
            }
            ++g.foreign[ x.oracle ];
         }
         if( !v.own.empty() ) {
            ++g.violations;
            if( g.violations <= max_viol ) {
               const auto& x = v.own.front();
               std::fprintf( g.res, "V %" PRIu64 " %s %s | %s\n", i, x.oracle.c_str(), x.key.c_str(), x.detail.c_str() );
               std::fflush( g.res );
            }
         }
      }
      if( status ) {
         status[ 0 ] = ~0ULL;
         status[ 1 ] = 1;  // finished
      }
      g.emit( "STATS" );
      std::fclose( g.res );
      g.res = nullptr;
      std::fclose( g_fp );
      g_fp = nullptr;
      if( hs ) {
         std::fclose( hs );
      }
      return 0;
   }

   void print_verdict( const Job& j, const Verdict& v )
   {
      std::printf( "case: %s\n", describe_case( j.c ).c_str() );
      std::printf( "fingerprint %016" PRIx64 " discarded=%d events=%" PRIu64 "\n", v.fingerprint, int( v.discarded ), v.events );
      for( const auto& x : v.own ) {
         std::printf( "VIOLATED %s key=%s event=%zu : %s\n", x.oracle.c_str(), x.key.c_str(), x.event, x.detail.c_str() );
      }
      for( const auto& x : v.foreign ) {
         std::printf( "other    %s key=%s event=%zu : %s\n", x.oracle.c_str(), x.key.c_str(), x.event, x.detail.c_str() );
      }
   }

   void write_replay( const std::string& path, const Job& j, const Verdict& v, const std::string& oracle, std::uint64_t seed, std::uint64_t index, unsigned reruns )
   {
      std::ofstream o( path );
      o << "# pegsim replay file: a complete job (grammar table, input, plan); replay with: pegsim replay <file>\n";
      o << "origin_seed " << seed << "\n";
      o << "origin_index " << index << "\n";
      o << "shrink_reruns " << reruns << "\n";
      std::string key, detail;
      for( const auto& x : v.own ) {
         if( x.oracle == oracle ) {
            key = x.key;
            detail = x.detail;
            break;
         }
      }
      if( key.empty() ) {
         for( const auto& x : v.foreign ) {
            if( x.oracle == oracle ) {
               key = x.key;
               detail = x.detail;
               break;
            }
         }
      }
      if( key.empty() && is_fatal_oracle( oracle ) ) {
         key = ( oracle.find( ".poison" ) != std::string::npos ) ? "asan" : "crash";
      }
      o << "expect_oracle " << oracle << "\n";
      o << "expect_key " << key << "\n";
      char b[ 32 ];
      std::snprintf( b, sizeof( b ), "%016" PRIx64, v.fingerprint );
      o << "expect_fingerprint " << b << "\n";
      o << "# " << detail << "\n";
      o << "# " << describe_case( j.c ) << "\n";
      o << job_to_text( j );
   }

   bool expectation( const std::string& text, std::string& oracle, std::string& key, std::string& fpr )
   {
      std::istringstream in( text );
      std::string line;
      while( std::getline( in, line ) ) {
         std::istringstream ls( line );
         std::string k;
         ls >> k;
         if( k == "expect_oracle" ) {
            ls >> oracle;
         }
         else if( k == "expect_key" ) {
            ls >> key;
         }
         else if( k == "expect_fingerprint" ) {
            ls >> fpr;
         }
      }
      return !oracle.empty();
   }

   // exit 1: violation reproduced exactly; 0: no violation; 2: something else happened
   int cmd_replay( const Args& a )
   {
      if( a.pos.empty() ) {
         std::fprintf( stderr, "usage: pegsim replay <file> [--dump]\n" );
         return 3;
      }
      const std::string text = read_file( a.pos[ 0 ] );
      Job j;
      std::string err;
      if( !job_from_text( text, j, err ) ) {
         std::fprintf( stderr, "bad replay file: %s\n", err.c_str() );
         return 3;
      }
      std::string oracle, key, fpr;
      expectation( text, oracle, key, fpr );
      if( !job_runnable( j ) ) {
         std::printf( "NOT-RUNNABLE by this binary (set %d)\n", int( j.set ) );
         return 4;
      }
      if( is_fatal_oracle( oracle ) ) {
         const int c = judge_forked( j, oracle );
         const bool poison = oracle.compare( oracle.size() - 7, 7, ".poison" ) == 0;
         std::printf( "case: %s\n", describe_case( j.c ).c_str() );
         if( ( poison && c == 77 ) || ( !poison && c == 99 ) ) {
            std::printf( "REPRODUCED oracle=%s key=%s (the run ends the process: %s)\n", oracle.c_str(), key.c_str(), poison ? "AddressSanitizer report" : "crash" );
            if( a.num( "dump", 0 ) ) {
               std::printf( "---- running in-process to show the sanitizer report / crash\n" );
               std::fflush( stdout );
               (void)judge( j );
            }
            return 1;
         }
         std::printf( c == 0 ? "NOT-REPRODUCED (no violation)\n" : "DIFFERENT outcome than recorded (class %d)\n", c );
         return c == 0 ? 0 : 2;
      }
      if( !a.num( "dump", 0 ) && !a.num( "inprocess", 0 ) ) {
         // judge in a child first: the job may also contain an access that ends the process
         const int c = judge_forked( j, oracle );
         if( c == 77 || c == 99 ) {
            std::printf( "case: %s\nthe run also ends the process (%s) before or after the recorded violation\n", describe_case( j.c ).c_str(), c == 77 ? "AddressSanitizer report" : "crash" );
            std::printf( "REPRODUCED oracle=%s key=%s (run ends the process)\n", oracle.c_str(), key.c_str() );
            return 1;
         }
      }
      const Verdict v = judge( j );
      print_verdict( j, v );
      if( a.num( "dump", 0 ) ) {
         if( j.mode == MODE_EQUAL ) {
            std::printf( "---- reference history\n%s", dump_history( run_case( SET_MEM, j.c ) ).c_str() );
         }
         std::printf( "---- history (set %d)\n%s", int( j.set ), dump_history( run_case( j.set, j.c ) ).c_str() );
      }
      bool hit = false;
      for( const auto& x : v.own ) {
         hit = hit || ( x.oracle == oracle && ( key.empty() || x.key == key ) );
      }
      for( const auto& x : v.foreign ) {
         hit = hit || ( x.oracle == oracle && ( key.empty() || x.key == key ) );
      }
      char b[ 32 ];
      std::snprintf( b, sizeof( b ), "%016" PRIx64, v.fingerprint );
      if( hit ) {
         const bool same_fp = fpr.empty() || fpr == b;
         std::printf( "REPRODUCED oracle=%s key=%s fingerprint=%s%s\n", oracle.c_str(), key.c_str(), b, same_fp ? "" : " (fingerprint differs from the recorded one)" );
         return 1;
      }
      if( v.own.empty() ) {
         std::printf( "NOT-REPRODUCED (no violation)\n" );
         return 0;
      }
      std::printf( "DIFFERENT violation than recorded\n" );
      return 2;
   }

   int cmd_shrink( const Args& a )
   {
      const std::string check = a.get( "check" );
      const std::uint64_t seed = a.num( "seed", 1 ), index = a.num( "index", 0 );
      const bool thorough = a.get( "tier", "quick" ) == "thorough";
      const std::string out = a.get( "out", "/tmp/pegsim.replay" );
      Job j = make_job( check, seed, index, thorough );
      if( !job_runnable( j ) ) {
         std::printf( "NOT-RUNNABLE by this binary (set %d)\n", int( j.set ) );
         return 4;
      }
      const std::string want = a.get( "oracle" );
      if( is_fatal_oracle( want ) ) {
         const bool poison = want.compare( want.size() - 7, 7, ".poison" ) == 0;
         const int c0 = judge_forked( j, want );
         if( !( ( poison && c0 == 77 ) || ( !poison && c0 == 99 ) ) ) {
            std::printf( "NO-VIOLATION at index %" PRIu64 " (class %d)\n", index, c0 );
            return 0;
         }
         if( judge_forked( j, want ) != c0 ) {
            std::printf( "NONDETERMINISTIC outcome at index %" PRIu64 "\n", index );
            return 2;
         }
         unsigned reruns = 0;
         const Job m = shrink_job( j, want, reruns );
         Verdict none;
         write_replay( out, m, none, want, seed, index, reruns );
         std::printf( "SHRUNK oracle=%s reruns=%u replay=%s\n", want.c_str(), reruns, out.c_str() );
         std::printf( "case: %s\n", describe_case( m.c ).c_str() );
         return 1;
      }
      if( a.num( "fork", 0 ) != 0 && !want.empty() ) {
         // a non-fatal violation whose neighbourhood contains runs that end the process: everything in children
         if( judge_forked( j, want ) != 1 ) {
            std::printf( "NO-VIOLATION at index %" PRIu64 " (forked)\n", index );
            return 0;
         }
         unsigned reruns = 0;
         const Job m = shrink_job( j, want, reruns, true );
         std::fflush( nullptr );
         const pid_t pid = ::fork();
         if( pid == 0 ) {
            const Verdict vm = judge( m );
            write_replay( out, m, vm, want, seed, index, reruns );
            ::_exit( 0 );
         }
         int st = 0;
         ::waitpid( pid, &st, 0 );
         if( !( WIFEXITED( st ) && WEXITSTATUS( st ) == 0 ) ) {
            Verdict none;
            write_replay( out, m, none, want, seed, index, reruns );
         }
         std::printf( "SHRUNK oracle=%s reruns=%u replay=%s (forked)\n", want.c_str(), reruns, out.c_str() );
         return 1;
      }
      const Verdict v0 = judge( j );
      if( v0.own.empty() ) {
         std::printf( "NO-VIOLATION at index %" PRIu64 "\n", index );
         return 0;
      }
      std::string oracle = a.get( "oracle", v0.own.front().oracle );
      // gate 1: the same run, again, in this process
      const Verdict v1 = judge( j );
      if( v1.fingerprint != v0.fingerprint ) {
         std::printf( "NONDETERMINISTIC fingerprint at index %" PRIu64 "\n", index );
         return 2;
      }
      unsigned reruns = 0;
      const Job m = shrink_job( j, oracle, reruns );
      const Verdict vm = judge( m );
      write_replay( out, m, vm, oracle, seed, index, reruns );
      std::printf( "SHRUNK oracle=%s reruns=%u replay=%s\n", oracle.c_str(), reruns, out.c_str() );
      print_verdict( m, vm );
      return 1;
   }

   int cmd_show( const Args& a )
   {
      const std::string check = a.get( "check" );
      const std::uint64_t seed = a.num( "seed", 1 ), index = a.num( "index", 0 );
      const bool thorough = a.get( "tier", "quick" ) == "thorough";
      const Job j = make_job( check, seed, index, thorough );
      std::printf( "%s", job_to_text( j ).c_str() );
      if( !job_runnable( j ) ) {
         std::printf( "NOT-RUNNABLE by this binary (set %d)\n", int( j.set ) );
         return 4;
      }
      if( a.num( "text-only", 0 ) ) {
         return 0;
      }
      const int c = judge_forked( j, "-" );
      if( c == 77 || c == 99 ) {
         std::printf( "case: %s\nthe run ends the process (%s)\n", describe_case( j.c ).c_str(), c == 77 ? "AddressSanitizer report" : "crash" );
         return 0;
      }
      const Verdict v = judge( j );
      print_verdict( j, v );
      if( a.num( "dump", 0 ) ) {
         if( j.mode == MODE_EQUAL ) {
            std::printf( "---- reference history\n%s", dump_history( run_case( SET_MEM, j.c ) ).c_str() );
         }
         std::printf( "---- history (set %d)\n%s", int( j.set ), dump_history( run_case( j.set, j.c ) ).c_str() );
      }
      return 0;
   }
}  // namespace

void sim_emit_partial()
{
   // the process is about to end inside a run: keep what the finished runs of this worker established
   g_agg.emit( "PARTIAL" );
   if( g_fp ) {
      std::fflush( g_fp );
   }
}

int main( int argc, char** argv )
{
   if( argc < 2 ) {
      std::fprintf( stderr, "usage: pegsim run|replay|shrink|show ...\n" );
      return 3;
   }
   // deep (but bounded) recursion of instrumented frames: make sure the stack is large
   struct rlimit rl;
   if( getrlimit( RLIMIT_STACK, &rl ) == 0 && rl.rlim_cur != RLIM_INFINITY && rl.rlim_cur < ( 256u << 20 ) ) {
      rl.rlim_cur = ( rl.rlim_max == RLIM_INFINITY || rl.rlim_max >= ( 256u << 20 ) ) ? ( 256u << 20 ) : rl.rlim_max;
      if( setrlimit( RLIMIT_STACK, &rl ) == 0 && std::getenv( "PEGSIM_REEXEC" ) == nullptr ) {
         setenv( "PEGSIM_REEXEC", "1", 1 );
         execv( "/proc/self/exe", argv );
      }
   }
   sim::W.h.reserve( 65536 );
   std::signal( SIGABRT, sim_on_abort );
   const std::string cmd = argv[ 1 ];
   const Args a = parse_args( argc, argv, 2 );
   if( cmd == "run" ) {
      const int rc = cmd_run( a );
#ifdef HAVE_IO
      sim::io_cleanup();
#endif
      return rc;
   }
   if( cmd == "replay" ) {
      return cmd_replay( a );
   }
   if( cmd == "shrink" ) {
      return cmd_shrink( a );
   }
   if( cmd == "show" ) {
      return cmd_show( a );
   }
   if( cmd == "merge-fp" ) {
      // number of distinct fingerprints over the given files
      std::vector< std::uint64_t > all;
      for( const auto& f : a.pos ) {
         std::ifstream in( f, std::ios::binary );
         std::uint64_t v;
         while( in.read( reinterpret_cast< char* >( &v ), sizeof( v ) ) ) {
            all.push_back( v );
         }
      }
      std::sort( all.begin(), all.end() );
      all.erase( std::unique( all.begin(), all.end() ), all.end() );
      std::printf( "%zu\n", all.size() );
      return 0;
   }
   std::fprintf( stderr, "unknown command %s\n", cmd.c_str() );
   return 3;
}
